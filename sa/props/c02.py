"""C02 - expression text parses to the tree the precedence rules dictate."""
import ast

from ..core import Unrecognised, call_name, const_str, norm, walk_no_nested, const_eval, NotConstant, if_chain
from ..rx import Rx
from .. import schema as schema_mod
from ..rt import EvalExpr, ALL_BINARY

EXPLANATION = (
    'C02.T: the precedence table BINARY_REORDER (constant-folded from its source, so a generated table is accepted) must '
    'map every operator to exactly the operators on strictly lower rungs of the ladder ** > * / % > + - > <= < >= > > '
    '== != > && > || (14 x 14 entries, set equality): an extra same-rung entry flips associativity, a missing lower-rung '
    'entry breaks precedence. C02.A: the operator alternation of the tokeniser regex, the table keys, the schema enum and '
    'the operators dispatched by the evaluator are the same set (binary and unary). C02.L: in the ordered alternation a '
    'longer operator precedes each of its proper prefixes. C02.S: the re-ordering loop of _parse_binary_expression is '
    'recognised by shape - top test and loop test use the same table row of the NEW operator, the cursor descends only '
    'along binary.right of the node just inspected, the new node takes the cursor\'s old right child as left and the '
    'parsed operand as right, otherwise the new node wraps the whole left tree; the recursion continues with the '
    'remaining text. With T and S the spine of the tree keeps strictly increasing rungs, which gives precedence and left '
    'associativity for every chain. C02.D: operand branches of _parse_unary_expression are identified by the regex they '
    'test (classified from the pattern) and must be tried in an order that resolves every overlap the intended way '
    '(call before variable, operator before signed number); each branch returns [node, remainder]. C02.U: a unary '
    'operator wraps the result of parsing the text that follows it (nested prefix operators apply right-to-left). C02.R: '
    'parse_expression returns only after testing that the remainder is blank and raises otherwise; every path of the '
    'operand parser ends in return or raise; unmatched parenthesis / missing separator raise. C02.X: every remainder and '
    'every error text is a suffix of the input (suffix lattice). Decides table and shape; the 14^k enumeration of '
    'chains is an execution-based check and is not attempted.')
ENUMERATION = '196 table entries, 4+3 operator tables, ordered operator pairs, spine-loop slots, operand branches, return/raise sites'

LADDER = [['**'], ['*', '/', '%'], ['+', '-'], ['<=', '<', '>=', '>'], ['==', '!='], ['&&'], ['||']]
RUNG = {op: i for i, ops in enumerate(LADDER) for op in ops}


def check_table(chk, mod):
    node = mod.const_node('BINARY_REORDER', 'C02.T')
    try:
        table = const_eval(mod, node)
    except (NotConstant, Exception) as exc:
        raise Unrecognised('C02.T', f'BINARY_REORDER cannot be constant-folded: {exc}', mod.rel)
    if not isinstance(table, dict):
        raise Unrecognised('C02.T', 'BINARY_REORDER is not a mapping', mod.rel)
    for op in RUNG:
        if op not in table:
            chk.bad('C02.T', mod, 'BINARY_REORDER', f'row {op!r} missing', f'operator {op} has no row in the re-order table (KeyError / no re-ordering for it)')
            continue
        row = set(table[op])
        want = {o for o in RUNG if RUNG[o] > RUNG[op]}
        for o in sorted(RUNG):
            if (o in row) == (o in want):
                chk.ok('C02.T', f'BINARY_REORDER[{op!r}] {"contains" if o in row else "omits"} {o!r}', trivial=True)
        extra, missing = row - want, want - row
        if extra:
            same = [o for o in extra if RUNG.get(o) == RUNG[op]]
            chk.bad('C02.T', mod, 'BINARY_REORDER', f'row {op!r} has extra {sorted(extra)}',
                    f'BINARY_REORDER[{op!r}] contains {sorted(extra)}, which are not of strictly lower precedence than {op}: '
                    + (f'`a {same[0]} b {op} c` groups to the right (associativity lost)' if same else f'`a {sorted(extra)[0]} b {op} c` binds {op} below a higher-precedence operator'))
        if missing:
            chk.bad('C02.T', mod, 'BINARY_REORDER', f'row {op!r} lacks {sorted(missing)}',
                    f'BINARY_REORDER[{op!r}] lacks {sorted(missing)}: `a {sorted(missing)[0]} b {op} c` parses as (a {sorted(missing)[0]} b) {op} c although {op} binds tighter')
        if not extra and not missing:
            chk.ok('C02.T', f'BINARY_REORDER[{op!r}] = all {len(want)} operators of strictly lower precedence')
    for op in table:
        if op not in RUNG:
            chk.bad('C02.T', mod, 'BINARY_REORDER', f'unknown row {op!r}', f'the re-order table has a row for {op!r}, which is not a binary operator of the language')
    return table


def classify_expr_regexes(mod):
    """expression-token regex constants of parser.py classified from their patterns"""
    out = {}
    for name, rg in mod.regexes().items():
        try:
            rx = Rx(rg.pattern, rg.flags, name)
        except Unrecognised:
            continue
        items = rx.top_items()
        if not items or items[0].kind != 'at' or rx.anchored_end():
            continue
        rest = [x for x in items[1:] if not Rx.is_ws_star(x)]
        if not rest:
            continue
        first = rest[0]
        mand = rx.mandatory_chars()
        lit = Rx.literal_of(first)
        kind = None
        if first.kind == 'group':
            inner = first.kids[0]
            alts = None
            try:
                alts = rx.alternation_literals()
            except Unrecognised:
                alts = None
            if alts and '**' in alts:
                kind = 'binary_op'
            elif alts and set(alts) <= {'!', '-', '+', '~'} and len(rest) == 1:
                kind = 'unary_op'
            elif any(n.kind == 'in' and ('cat', 'CATEGORY_DIGIT') in n.b for n in rx.walk(first)) and not any(n.kind == 'in' and any(i[0] == 'range' for i in n.b) for n in rx.walk(first)):
                kind = 'number'
            elif any(n.kind == 'in' and any(i[0] == 'range' for i in n.b) for n in rx.walk(first)):
                kind = 'function_open' if (len(rest) > 1 and '(' in mand) else 'variable'
        elif lit == '(':
            kind = 'group_open'
        elif lit == ')':
            kind = 'close'
        elif lit == ',':
            kind = 'separator'
        elif lit == "'":
            kind = 'string'
        elif lit == '"':
            kind = 'string_double'
        elif lit == '[':
            kind = 'variable_ex'
        if kind:
            out[name] = (kind, rx)
    return out


def check_agreement(chk, mod, table, rxs):
    bin_rx = [r for n, (k, r) in rxs.items() if k == 'binary_op']
    un_rx = [r for n, (k, r) in rxs.items() if k == 'unary_op']
    if len(bin_rx) != 1 or len(un_rx) != 1:
        raise Unrecognised('C02.A', f'binary / unary operator regexes not identified ({len(bin_rx)}, {len(un_rx)})', mod.rel)
    alts = bin_rx[0].alternation_literals()
    sch = schema_mod.load(chk.repo.module('model'), 'BARE_SCRIPT_TYPES', 'C02.A')
    enum = sch.enums.get('BinaryExpressionOperator', [])
    ee = EvalExpr(chk.repo, 'C02.A')
    bs = ee.binary()
    disp = set(bs.branches)
    miss = set(enum) - disp
    if bs.else_branch is not None and len(miss) == 1:
        disp |= miss
    sets = {'tokeniser alternation': set(alts), 'BINARY_REORDER keys': set(table), 'schema enum': set(enum), 'evaluator dispatch': disp, 'language': set(RUNG)}
    ref = sets['language']
    for name, s in sets.items():
        if s == ref:
            chk.ok('C02.A', f'{name}: the 14 binary operators')
        else:
            chk.bad('C02.A', mod, name, f'{name} differs by {sorted(s ^ ref)}',
                    f'the binary operator set of the {name} differs from the language by {sorted(s ^ ref)}: an operator is tokenised but not ordered/evaluated (or vice versa)')
    if len(alts) != len(set(alts)):
        chk.bad('C02.A', mod, bin_rx[0].name, 'duplicate alternative', 'the operator alternation lists an operator twice')
    ualts = un_rx[0].alternation_literals()
    uen = sch.enums.get('UnaryExpressionOperator', [])
    if set(ualts) == set(uen) == {'!', '-'}:
        chk.ok('C02.A', 'unary operators: tokeniser alternation = schema enum = {!, -}')
    else:
        chk.bad('C02.A', mod, un_rx[0].name, f'unary {sorted(ualts)} vs enum {sorted(uen)}', 'unary operator tokeniser and schema enum disagree')
    # C02.L longest match
    for i, p in enumerate(alts):
        for j, q in enumerate(alts):
            if p != q and q.startswith(p):
                if j < i:
                    chk.ok('C02.L', f'{q!r} is tried before its prefix {p!r}')
                else:
                    chk.bad('C02.L', mod, bin_rx[0].name, f'{p!r} before {q!r}',
                            f'in the operator alternation {p!r} is tried before {q!r}: `a {q} b` is tokenised as {p!r} followed by {q[len(p):]!r}')
    return bin_rx[0], un_rx[0]


def check_spine(chk, mod):
    func = mod.func('_parse_binary_expression', 'C02.S')
    params = [a.arg for a in func.args.args]
    loops = [n for n in walk_no_nested(func) if isinstance(n, ast.While)]
    if len(loops) != 1:
        raise Unrecognised('C02.S', f'_parse_binary_expression: expected one re-ordering loop, found {len(loops)}', mod.rel)
    loop = loops[0]
    # enclosing if: the top-level test
    top = getattr(loop, '_parent', None)
    if not isinstance(top, ast.If):
        raise Unrecognised('C02.S', 're-ordering loop is not inside the precedence test', mod.rel)
    defs = {}
    for n in walk_no_nested(func):
        if isinstance(n, ast.Assign) and len(n.targets) == 1 and isinstance(n.targets[0], ast.Name):
            defs.setdefault(n.targets[0].id, []).append(n.value)
    # new operator variable: assigned from match.group(1)
    op_var = next((k for k, v in defs.items() if any(isinstance(x, ast.Call) and isinstance(x.func, ast.Attribute) and x.func.attr == 'group' and norm(x.args[0]) == '1' for x in v)), None)
    if op_var is None:
        raise Unrecognised('C02.S', 'operator variable (match.group(1)) not found', mod.rel)
    row_names = {f'BINARY_REORDER[{op_var}]'} | {k for k, v in defs.items() if len(v) == 1 and norm(v[0]) == f'BINARY_REORDER[{op_var}]'}

    def membership(test):
        """[(member_expr_text, row_text)] for `X in ROW` conjuncts"""
        out = []
        for c in (test.values if isinstance(test, ast.BoolOp) and isinstance(test.op, ast.And) else [test]):
            if isinstance(c, ast.Compare) and len(c.ops) == 1 and isinstance(c.ops[0], ast.In):
                out.append((norm(c.left), norm(c.comparators[0]), c))
        return out
    left_var = None
    # left tree variable: the one tested `'binary' in X` in the top test
    for c in (top.test.values if isinstance(top.test, ast.BoolOp) else [top.test]):
        if isinstance(c, ast.Compare) and isinstance(c.ops[0], ast.In) and const_str(c.left) == 'binary' and isinstance(c.comparators[0], ast.Name):
            left_var = c.comparators[0].id
    if left_var is None:
        raise Unrecognised('C02.S', "top test does not check 'binary' in <left tree>", mod.rel)
    tm = [m for m in membership(top.test) if m[1] in row_names]
    if len(tm) == 1 and tm[0][0] == f"{left_var}['binary']['op']":
        chk.ok('C02.S', f'top test: {tm[0][0]} in the table row of the new operator')
    else:
        chk.bad('C02.S', mod, func.name, norm(top.test)[:140], 'the precedence test must ask whether the operator at the root of the left tree is in BINARY_REORDER[new operator]', node=top.test)
    # cursor: variable reassigned in the loop body
    body_assigns = [s for s in loop.body if isinstance(s, ast.Assign) and isinstance(s.targets[0], ast.Name)]
    if len(loop.body) != 1 or len(body_assigns) != 1:
        raise Unrecognised('C02.S', 're-ordering loop body is not a single cursor move', mod.rel)
    cur = body_assigns[0].targets[0].id
    move = norm(body_assigns[0].value)
    if move == f"{cur}['binary']['right']":
        chk.ok('C02.S', f'cursor {cur} descends along binary.right')
    else:
        chk.bad('C02.S', mod, func.name, norm(body_assigns[0]), 'the re-ordering cursor must descend only along the RIGHT spine (cursor = cursor.binary.right)', node=body_assigns[0])
    lm = [m for m in membership(loop.test) if m[1] in row_names]
    binary_in = [norm(c.comparators[0]) for c in (loop.test.values if isinstance(loop.test, ast.BoolOp) else [loop.test])
                 if isinstance(c, ast.Compare) and isinstance(c.ops[0], ast.In) and const_str(c.left) == 'binary']
    want_child = f"{cur}['binary']['right']"
    if len(lm) == 1 and lm[0][0] == f"{want_child}['binary']['op']" and binary_in == [want_child]:
        chk.ok('C02.S', f'loop test inspects the right child of the CURSOR ({want_child}) against the same table row')
    else:
        chk.bad('C02.S', mod, func.name, norm(loop.test)[:160],
                f"the loop must continue while the right child of the cursor ({want_child}) is a binary node whose operator is in BINARY_REORDER[new operator]; "
                f"testing another node (e.g. the root's child) makes the descent ignore precedence below the first level", node=loop.test)
    # initial cursor = left tree
    pre = [s for s in top.body if isinstance(s, ast.Assign) and norm(s.targets[0]) == cur]
    if pre and norm(pre[0].value) == left_var:
        chk.ok('C02.S', f'cursor starts at the root of the left tree ({left_var})')
    else:
        chk.bad('C02.S', mod, func.name, f'{cur} initial value', 'the cursor must start at the root of the left tree', node=top)
    # splice
    right_var = next((k for k, v in defs.items() if any(isinstance(x, ast.Call) for x in v) and k not in (op_var,) and
                      any(isinstance(t, ast.Tuple) for t in [])), None)
    splice = [s for s in top.body if isinstance(s, ast.Assign) and isinstance(s.targets[0], ast.Subscript) and norm(s.targets[0]) == f"{cur}['binary']['right']"]
    # name of the freshly parsed right operand: tuple-unpacked from _parse_unary_expression(right_text)
    operand = None
    for n in walk_no_nested(func):
        if isinstance(n, ast.Assign) and isinstance(n.targets[0], ast.Tuple) and isinstance(n.value, ast.Call) and call_name(n.value) == '_parse_unary_expression' \
                and n.lineno > (getattr(defs.get(op_var, [None])[0], 'lineno', 0) or 0):
            operand = n.targets[0].elts[0].id
    if len(splice) == 1 and isinstance(splice[0].value, ast.Dict):
        d = splice[0].value
        inner = d.values[0] if len(d.keys) == 1 and const_str(d.keys[0]) == 'binary' and isinstance(d.values[0], ast.Dict) else None
        fields = {const_str(k): norm(v) for k, v in zip(inner.keys, inner.values)} if inner is not None else {}
        if fields == {'op': op_var, 'left': f"{cur}['binary']['right']", 'right': operand}:
            chk.ok('C02.S', 'splice: new node {op, left: old right child of the cursor, right: parsed operand} replaces that right child')
        else:
            chk.bad('C02.S', mod, func.name, norm(splice[0])[:160],
                    'the new binary node must take the cursor\'s old right child as LEFT operand and the newly parsed operand as RIGHT operand', node=splice[0])
    else:
        chk.bad('C02.S', mod, func.name, 'splice statement', 'the re-ordered node must be stored as the new right child of the cursor', node=top)
    # else: wrap the whole left tree
    els = [s for s in top.orelse if isinstance(s, ast.Assign)]
    result_var = None
    if len(els) == 1 and isinstance(els[0].value, ast.Dict):
        d = els[0].value
        inner = d.values[0] if len(d.keys) == 1 and const_str(d.keys[0]) == 'binary' and isinstance(d.values[0], ast.Dict) else None
        fields = {const_str(k): norm(v) for k, v in zip(inner.keys, inner.values)} if inner is not None else {}
        result_var = norm(els[0].targets[0])
        if fields == {'op': op_var, 'left': left_var, 'right': operand}:
            chk.ok('C02.S', 'otherwise the new node wraps the whole left tree as its left operand (left associativity)')
        else:
            chk.bad('C02.S', mod, func.name, norm(els[0])[:160], 'without re-ordering the new node must be {op, left: whole left tree, right: parsed operand}', node=els[0])
    else:
        chk.bad('C02.S', mod, func.name, 'else branch', 'missing the plain left-associative construction', node=top)
    # the re-ordered result is the (mutated) left tree
    res_in_if = [s for s in top.body if isinstance(s, ast.Assign) and norm(s.targets[0]) == result_var]
    if result_var and res_in_if and norm(res_in_if[0].value) == left_var:
        chk.ok('C02.S', 'after re-ordering the result is the left tree itself')
    else:
        chk.bad('C02.S', mod, func.name, f'{result_var} after re-ordering', 'after splicing, the expression under construction must be the (modified) left tree', node=top)
    # tail recursion with the remaining text and the combined tree
    tail = func.body[-1]
    if isinstance(tail, ast.Return) and isinstance(tail.value, ast.Call) and call_name(tail.value) == func.name and len(tail.value.args) == 2 \
            and norm(tail.value.args[1]) == result_var:
        chk.ok('C02.S', 'the chain continues with the remaining text and the combined tree')
    else:
        chk.bad('C02.S', mod, func.name, norm(tail)[:120], 'the parser must continue the operator chain with the remaining text and the tree built so far', node=tail)


def suffix_vars(func, mod, rxs):
    """locals that are always suffixes of the function's first parameter (suffix lattice, flow-insensitive fixpoint)"""
    param = func.args.args[0].arg
    assigns = {}
    for n in walk_no_nested(func):
        if isinstance(n, ast.Assign) and len(n.targets) == 1:
            t = n.targets[0]
            if isinstance(t, ast.Name):
                assigns.setdefault(t.id, []).append(('expr', n.value))
            elif isinstance(t, ast.Tuple) and len(t.elts) == 2 and isinstance(t.elts[1], ast.Name) and isinstance(n.value, ast.Call):
                assigns.setdefault(t.elts[1].id, []).append(('second', n.value))
    match_of = {}
    for n in walk_no_nested(func):
        if isinstance(n, ast.Assign) and isinstance(n.targets[0], ast.Name) and isinstance(n.value, ast.Call) and isinstance(n.value.func, ast.Attribute) \
                and n.value.func.attr == 'match' and isinstance(n.value.func.value, ast.Name) and n.value.args:
            match_of.setdefault(n.targets[0].id, []).append((n.value.func.value.id, norm(n.value.args[0])))
    # greatest fixpoint: assume every assigned local is a suffix, drop those with a non-suffix assignment
    suf = {param} | set(assigns)
    changed = True
    while changed:
        changed = False
        for name, vals in assigns.items():
            if name in suf and name != param and not all(_is_suffix(kind, v, suf, match_of, mod) for kind, v in vals):
                suf.discard(name)
                changed = True
    if param in assigns and not all(_is_suffix(kind, v, suf, match_of, mod) for kind, v in assigns[param]):
        suf.discard(param)
    return suf, match_of


def _is_suffix(kind, v, suf, match_of, mod):
    if kind == 'second':
        return call_name(v) in ('_parse_binary_expression', '_parse_unary_expression') and v.args and isinstance(v.args[0], ast.Name) and v.args[0].id in suf
    if isinstance(v, ast.Name):
        return v.id in suf
    if isinstance(v, ast.Subscript) and isinstance(v.slice, ast.Slice) and v.slice.upper is None and v.slice.step is None and isinstance(v.value, ast.Name) and v.value.id in suf:
        lo = v.slice.lower
        # len(m.group(0)) where m = R.match(<same text>)
        if isinstance(lo, ast.Call) and call_name(lo) == 'len' and isinstance(lo.args[0], ast.Call) and isinstance(lo.args[0].func, ast.Attribute) \
                and lo.args[0].func.attr == 'group' and norm(lo.args[0].args[0]) == '0' and isinstance(lo.args[0].func.value, ast.Name):
            m = lo.args[0].func.value.id
            return any(subject == v.value.id for _r, subject in match_of.get(m, []))
        return False
    return False


def check_operands(chk, mod, rxs):
    func = mod.func('_parse_unary_expression', 'C02.D')
    suf, match_of = suffix_vars(func, mod, rxs)
    param = func.args.args[0].arg
    order = []
    branches = {}
    body = func.body
    for i, s in enumerate(body):
        if isinstance(s, ast.Assign) and isinstance(s.targets[0], ast.Name) and s.targets[0].id in match_of and i + 1 < len(body) and isinstance(body[i + 1], ast.If) \
                and norm(body[i + 1].test) == s.targets[0].id:
            rname, subject = match_of[s.targets[0].id][0]
            if subject != param:
                raise Unrecognised('C02.D', f'operand branch matches {subject}, not the input text', mod.rel)
            if rname not in rxs:
                raise Unrecognised('C02.D', f'operand regex {rname} not classified', mod.rel)
            order.append(rxs[rname][0])
            branches[rxs[rname][0]] = (body[i + 1], s.targets[0].id, rname)
    want_kinds = {'group_open', 'unary_op', 'function_open', 'number', 'string', 'string_double', 'variable', 'variable_ex'}
    if set(order) != want_kinds:
        chk.bad('C02.D', mod, func.name, f'operand kinds {sorted(set(order) ^ want_kinds)}', f'the operand parser does not try exactly the eight operand forms (difference: {sorted(set(order) ^ want_kinds)})')
        return branches
    for a, b, why in (('function_open', 'variable', 'a call `f(` would be read as the variable `f` followed by a group'),
                      ('unary_op', 'number', 'a leading minus would be absorbed into the number literal instead of being the unary operator'),
                      ('number', 'variable', 'digits could start an identifier')):
        if order.index(a) < order.index(b):
            chk.ok('C02.D', f'{a} is tried before {b}')
        else:
            chk.bad('C02.D', mod, func.name, f'{b} before {a}', f'operand form {b} is tried before {a}: {why}', node=branches[b][0])
    # every branch returns [node, suffix]; the function ends in raise
    for kind, (ifnode, mvar, rname) in branches.items():
        rets = [n for n in walk_no_nested(ifnode) if isinstance(n, ast.Return)]
        good = bool(rets)
        for r in rets:
            v = r.value
            if not (isinstance(v, (ast.List, ast.Tuple)) and len(v.elts) == 2):
                good = False
                continue
            rem = v.elts[1]
            ok_rem = (isinstance(rem, ast.Name) and rem.id in suf) or _is_suffix('expr', rem, suf, match_of, mod)
            if not ok_rem:
                good = False
                chk.bad('C02.X', mod, func.name, norm(r)[:120], f'the {kind} branch returns a remainder that is not a suffix of the text being parsed: text is dropped or re-read', node=r)
        if good:
            chk.ok('C02.D', f'{kind} branch returns [node, remainder] with a suffix remainder')
        elif not rets:
            chk.bad('C02.D', mod, func.name, f'{kind} branch without return', f'the {kind} branch does not return [node, remainder]', node=ifnode)
    last = body[-1]
    if isinstance(last, ast.Raise) and 'BareScriptParserError' in norm(last):
        chk.ok('C02.R', 'operand parser: no operand form matches -> raises BareScriptParserError (no fall-through None)')
    else:
        chk.bad('C02.R', mod, func.name, norm(last)[:100], 'when no operand form matches the operand parser must raise a parser error (falling through returns None and the caller fails with a host TypeError)', node=last)
    # group branch: raises when the close does not match
    g = branches['group_open'][0]
    raises = [n for n in walk_no_nested(g) if isinstance(n, ast.Raise)]
    guard_ok = any(isinstance(getattr(r, '_parent', None), ast.If) and 'is None' in norm(r._parent.test) or (isinstance(getattr(r, '_parent', None), ast.If) and norm(r._parent.test).startswith('not ')) for r in raises)
    if raises and guard_ok:
        chk.ok('C02.R', 'group: missing closing parenthesis raises')
    else:
        chk.bad('C02.R', mod, func.name, 'group close', 'a group whose closing parenthesis does not match must raise a parser error', node=g)
    f = branches['function_open'][0]
    raises = [n for n in walk_no_nested(f) if isinstance(n, ast.Raise)]
    if raises:
        chk.ok('C02.R', 'call: missing argument separator raises')
    else:
        chk.bad('C02.R', mod, func.name, 'argument separator', 'in an argument list, text that is neither `)` nor `,` must raise a parser error', node=f)
    return branches


def check_unary(chk, mod, branches):
    func = mod.func('_parse_unary_expression', 'C02.U')
    ifnode, mvar, rname = branches['unary_op']
    loops = [n for n in walk_no_nested(ifnode) if isinstance(n, (ast.For, ast.While))]
    dicts = [n for n in walk_no_nested(ifnode) if isinstance(n, ast.Dict) and len(n.keys) == 1 and const_str(n.keys[0]) == 'unary']
    if len(dicts) != 1:
        raise Unrecognised('C02.U', 'unary branch does not build exactly one unary node', mod.rel)
    d = dicts[0].values[0]
    fields = {const_str(k): v for k, v in zip(d.keys, d.values)} if isinstance(d, ast.Dict) else {}
    if not loops:
        op_ok = norm(fields.get('op')) == f'{mvar}.group(1)'
        # operand: first component of the recursive parse of the text after this operator
        rec = [n for n in walk_no_nested(ifnode) if isinstance(n, ast.Assign) and isinstance(n.targets[0], ast.Tuple) and isinstance(n.value, ast.Call)
               and call_name(n.value) == func.name]
        operand_ok = len(rec) == 1 and norm(fields.get('expr')) == norm(rec[0].targets[0].elts[0])
        if op_ok and operand_ok:
            chk.ok('C02.U', 'unary: {op: the matched operator, expr: result of parsing the text after it} (prefix operators nest right-to-left, binding tighter than any binary operator)')
        else:
            chk.bad('C02.U', mod, func.name, norm(dicts[0])[:140], 'a unary node must pair the matched operator with the operand parsed from the text that follows it', node=dicts[0])
        if rec and call_name(rec[0].value) != func.name:
            chk.bad('C02.U', mod, func.name, norm(rec[0])[:100], 'the operand of a unary operator must be a unary-level expression (not a whole binary chain)', node=rec[0])
        return
    # loop form: operators collected in a list, then applied
    fors = [n for n in loops if isinstance(n, ast.For) and any(x is dicts[0] for x in ast.walk(n))]
    if len(fors) == 1:
        it = norm(fors[0].iter)
        if it.startswith('reversed(') or it.endswith('[::-1]'):
            chk.ok('C02.U', f'unary operators collected in source order are applied innermost-last ({it})')
        else:
            chk.bad('C02.U', mod, func.name, f'for ... in {it}',
                    f'prefix operators collected in source order are wrapped around the operand in the same order ({it}): the FIRST operator becomes the innermost, '
                    f'so `!-a` parses as -(!a); they must be applied in reverse order', node=fors[0])
        return
    raise Unrecognised('C02.U', 'unary branch with a loop is not understood', mod.rel)


def check_rejection(chk, mod):
    func = mod.func('parse_expression', 'C02.R')
    rets = [n for n in walk_no_nested(func) if isinstance(n, ast.Return)]
    tr = [n for n in func.body if isinstance(n, ast.Try)]
    if len(tr) != 1 or len(rets) != 1:
        raise Unrecognised('C02.R', 'parse_expression is not try: parse / test / return', mod.rel)
    body = tr[0].body
    call = [s for s in body if isinstance(s, ast.Assign) and isinstance(s.value, ast.Call) and call_name(s.value) == '_parse_binary_expression']
    if len(call) != 1 or not isinstance(call[0].targets[0], ast.Tuple):
        raise Unrecognised('C02.R', 'parse_expression does not unpack [tree, remainder] from _parse_binary_expression', mod.rel)
    tree, rem = [e.id for e in call[0].targets[0].elts]
    ix_ret = body.index(rets[0]) if rets[0] in body else None
    tests = [s for s in body if isinstance(s, ast.If) and any(isinstance(x, ast.Raise) for x in s.body)]
    good = False
    for t in tests:
        tt = norm(t.test)
        if tt in (f"{rem}.strip() != ''", f'{rem}.strip()', f"{rem}.strip() != \"\"", f'len({rem}.strip()) > 0', f'{rem}.strip() != str()') and ix_ret is not None and body.index(t) < ix_ret:
            good = True
    if good and norm(rets[0].value) == tree:
        chk.ok('C02.R', f'parse_expression returns the tree only after `{rem}` (the unparsed remainder) was tested blank; otherwise raises')
    else:
        chk.bad('C02.R', mod, func.name, 'blank-remainder test', 'parse_expression must raise a parser error unless the text after the parsed expression is blank (trailing garbage would be silently ignored)', node=func)
    # raise sites pass suffixes (C02.X / C06.X)
    for fname in ('parse_expression', '_parse_unary_expression', '_parse_binary_expression'):
        f = mod.func(fname, 'C02.X')
        suf, match_of = suffix_vars(f, mod, {})
        if fname == 'parse_expression':
            suf.add(rem)
        for n in walk_no_nested(f):
            if isinstance(n, ast.Raise) and isinstance(n.exc, ast.Call) and call_name(n.exc) == 'BareScriptParserError' and len(n.exc.args) >= 2:
                inside_handler = any(isinstance(p, ast.ExceptHandler) for p in _parents(n))
                if inside_handler:
                    continue
                t = n.exc.args[1]
                if isinstance(t, ast.Name) and t.id in suf:
                    chk.ok('C02.X', f'{fname}: error text {t.id} is a suffix of the input (column = len(input) - len(text) + 1 points at it)')
                else:
                    chk.bad('C02.X', mod, fname, norm(n)[:120],
                            f'the error carries {norm(t)}, which is not a suffix of the text being parsed: the column computed from its length points at the wrong character', node=n)


def _parents(n):
    n = getattr(n, '_parent', None)
    while n is not None:
        yield n
        n = getattr(n, '_parent', None)


def check_identifiers(chk, mod, rxs):
    """C02.I: every place that names a function / variable accepts the same identifier language"""
    ident = {}
    for name, (kind, rx) in rxs.items():
        if kind in ('function_open', 'variable'):
            g = rx.group_node(1)
            if g is not None:
                ident[f'{kind} ({name})'] = repr(g.kids[0])
    from ..lowering import ParserModel
    for name, rg in mod.regexes().items():
        try:
            rx = Rx(rg.pattern, rg.flags, name)
        except Unrecognised:
            continue
        for gname in ('name', 'value', 'index'):
            g = rx.group_node(gname)
            if g is not None and name.startswith('_R_SCRIPT') or (g is not None and rx.anchored_end()):
                ident[f'{gname} of {name}'] = repr(g.kids[0])
    if len(ident) < 6:
        raise Unrecognised('C02.I', f'only {len(ident)} identifier patterns found', mod.rel)
    ref = ident.get(next((k for k in ident if k.startswith('variable')), None))
    for where, pat in sorted(ident.items()):
        if pat == ref:
            chk.ok('C02.I', f'{where}: same identifier pattern as variable references')
        else:
            chk.bad('C02.I', mod, where.split('(')[-1].strip(')').split(' of ')[-1], f'{where}: identifier pattern differs',
                    f'{where} accepts a different set of names than variable references ({pat} vs {ref}): a name accepted where it is defined is rejected where it is used '
                    f'(e.g. a function with a one-character name can be defined but a call of it is a syntax error)')


def run(chk):
    chk.rule('C02.I', 'identifier patterns agree between definitions, variable references and calls', floor=6)
    chk.rule('C02.T', 'precedence table = strictly-lower-rung sets (14 rows)', floor=14)
    chk.rule('C02.A', 'operator sets agree: tokeniser, table, schema, evaluator', floor=5)
    chk.rule('C02.L', 'longest operator first in the ordered alternation', floor=3)
    chk.rule('C02.S', 'right-spine re-ordering discipline', floor=8)
    chk.rule('C02.D', 'operand forms tried in an order that resolves overlaps; each returns [node, remainder]', floor=10)
    chk.rule('C02.U', 'unary operators nest right-to-left around the following operand', floor=1)
    chk.rule('C02.R', 'ill-formed text is rejected (blank remainder test, final raise, unmatched parenthesis, separator)', floor=4)
    chk.rule('C02.X', 'remainders and error texts are suffixes of the input', floor=4)
    chk.assumptions += ['regex engine semantics (ordered alternation, anchors) are CPython\'s; the spine argument (table + loop shape => precedence/associativity) is pencil-and-paper, see DESIGN.md']
    mod = chk.repo.module('parser')
    table = chk.guard('C02.T', check_table, chk, mod)
    rxs = classify_expr_regexes(mod)
    chk.extra['expression_regexes'] = {n: k for n, (k, _r) in rxs.items()}
    if table is not None:
        chk.guard('C02.A', check_agreement, chk, mod, table, rxs)
    chk.guard('C02.S', check_spine, chk, mod)
    branches = chk.guard('C02.D', check_operands, chk, mod, rxs)
    if branches:
        chk.guard('C02.U', check_unary, chk, mod, branches)
    chk.guard('C02.R', check_rejection, chk, mod)
    chk.guard('C02.I', check_identifiers, chk, mod, rxs)
