"""C02 - expression text parses to the tree the precedence rules dictate."""
import ast

from ..core import Unrecognised, call_name, const_str, norm, walk_no_nested, const_eval, NotConstant, if_chain
import itertools
import os

from ..rx import Rx
from .. import schema as schema_mod
from ..rt import EvalExpr, ALL_BINARY
from ..absint import Sym
from ..exprsim import (classify_expr_regexes, group_language, ExprInterp, AStream, reference, Reject, normal, pretty, show, LADDER, RUNG)

EXPLANATION = (
    'C02.T: the precedence table BINARY_REORDER (constant-folded from its source, so a generated table is accepted) must '
    'map every operator to exactly the operators on strictly lower rungs of the ladder ** > * / % > + - > <= < >= > > '
    '== != > && > || (14 x 14 entries, set equality): an extra same-rung entry flips associativity, a missing lower-rung '
    'entry breaks precedence. C02.A: the operator alternation of the tokeniser regex, the table keys, the schema enum and '
    'the operators dispatched by the evaluator are the same set (binary and unary). C02.L: in the ordered alternation a '
    'longer operator precedes each of its proper prefixes (priority order of the finite language of the capturing group, read '
    'from the regex tree, so character classes and optional suffixes are understood). C02.S/D/U/R/X (E6x): parse_expression and '
    'its helpers are evaluated by the abstract interpreter over abstract token streams - the text is a sequence of opaque '
    'tokens, REGEX.match is an oracle decided from the pattern of the regex constant, slices by the length/end of a match '
    'advance the stream (a slice by another text\'s match is a mis-aligned remainder), dict templates / the re-ordering walk / '
    'table lookups / recursion are evaluated exactly on a heap with identity. The resulting tree is compared with a '
    'ten-line precedence-climbing reference over the same tokens: C02.S every chain a op b op c ... of up to 4 operators '
    '(14 + 196 + 2744 + 38416), C02.D every operand form (literals, signed numbers, groups, calls with 0-3 arguments) alone, '
    'left and right of one operator per rung and between two, C02.U stacked prefix operators, C02.R 26 ill-formed sequences '
    'must be rejected with BareScriptParserError (no host exception, no acceptance), C02.X every error raised on the way '
    'carries a token-aligned suffix of the input and the final column is len(input) - len(suffix) + 1. The verdict depends on '
    'the tree the code builds, not on how the code is spelled; Python outside the interpreted subset is ANALYSIS-ERROR.')
ENUMERATION = '196 table entries, operator tables, ordered operator pairs; 41370 operator chains, ~2300 operand-form sequences, 26 ill-formed sequences (abstract token streams)'



def check_table(chk, mod):
    node = mod.const_node('BINARY_REORDER', 'C02.T')
    try:
        table = const_eval(mod, node)
    except (NotConstant, Exception) as exc:
        # a table built by a module-level helper function: the defining expression is evaluated by the abstract interpreter (the value the import gives the name)
        try:
            from ..absint import Interp, reify, ADict, ASet
            it = Interp(mod, 'C02.T')
            it.repo = chk.repo
            v = it.eval(ast.Name(id='BINARY_REORDER', ctx=ast.Load()), {})
            if not isinstance(v, ADict):
                raise Unrecognised('C02.T', 'BINARY_REORDER is not a mapping', mod.rel)
            table = {}
            for k, row in v.d.items():
                if isinstance(row, ASet):
                    table[k] = set(row.s)
                elif isinstance(reify(row), (list, tuple, set, frozenset, dict)):
                    table[k] = set(reify(row))
                else:
                    raise Unrecognised('C02.T', f'BINARY_REORDER[{k!r}] is not a collection of operators', mod.rel)
        except Unrecognised as exc2:
            raise Unrecognised('C02.T', f'BINARY_REORDER can be neither constant-folded ({exc}) nor evaluated ({exc2.what})', mod.rel)
    if not isinstance(table, dict):
        raise Unrecognised('C02.T', 'BINARY_REORDER is not a mapping', mod.rel)
    for op in RUNG:
        if op not in table:
            chk.bad('C02.T', mod, 'BINARY_REORDER', f'row {op!r} missing', f'operator {op} has no row in the re-order table (KeyError / no re-ordering for it)')
            continue
        row = set(table[op])
        want = {o for o in RUNG if RUNG[o] > RUNG[op]}
        for o in sorted(RUNG):
            if (o in row) == (o in want):
                chk.ok('C02.T', f'BINARY_REORDER[{op!r}] {"contains" if o in row else "omits"} {o!r}', trivial=True)
        extra, missing = row - want, want - row
        if extra:
            same = [o for o in extra if RUNG.get(o) == RUNG[op]]
            chk.bad('C02.T', mod, 'BINARY_REORDER', f'row {op!r} has extra {sorted(extra)}',
                    f'BINARY_REORDER[{op!r}] contains {sorted(extra)}, which are not of strictly lower precedence than {op}: '
                    + (f'`a {same[0]} b {op} c` groups to the right (associativity lost)' if same else f'`a {sorted(extra)[0]} b {op} c` binds {op} below a higher-precedence operator'))
        if missing:
            chk.bad('C02.T', mod, 'BINARY_REORDER', f'row {op!r} lacks {sorted(missing)}',
                    f'BINARY_REORDER[{op!r}] lacks {sorted(missing)}: `a {sorted(missing)[0]} b {op} c` parses as (a {sorted(missing)[0]} b) {op} c although {op} binds tighter')
        if not extra and not missing:
            chk.ok('C02.T', f'BINARY_REORDER[{op!r}] = all {len(want)} operators of strictly lower precedence')
    for op in table:
        if op not in RUNG:
            chk.bad('C02.T', mod, 'BINARY_REORDER', f'unknown row {op!r}', f'the re-order table has a row for {op!r}, which is not a binary operator of the language')
    return table


def check_agreement(chk, mod, table, rxs):
    bin_rx = [r for n, (k, r) in rxs.items() if k == 'binary_op']
    un_rx = [r for n, (k, r) in rxs.items() if k == 'unary_op']
    if len(bin_rx) != 1 or len(un_rx) != 1:
        raise Unrecognised('C02.A', f'binary / unary operator regexes not identified ({len(bin_rx)}, {len(un_rx)})', mod.rel)
    alts = group_language(bin_rx[0], 1)
    sch = schema_mod.load(chk.repo.module('model'), 'BARE_SCRIPT_TYPES', 'C02.A')
    enum = sch.enums.get('BinaryExpressionOperator', [])
    from .. import evalsim
    res = evalsim.operator_coverage(chk.repo, sorted(set(enum) | set(RUNG)), 'C02.A')
    if any(v[0] == 'undecided' for v in res.values()):
        raise Unrecognised('C02.A', f'operator coverage of the evaluator not decided: {[k for k, v in res.items() if v[0] == "undecided"]}', mod.rel)
    disp = {o for o, v in res.items() if v[0] == 'value' and v[1] is not None}
    sets = {'tokeniser alternation': set(alts), 'BINARY_REORDER keys': set(table), 'schema enum': set(enum), 'evaluator dispatch': disp, 'language': set(RUNG)}
    ref = sets['language']
    for name, s in sets.items():
        if s == ref:
            chk.ok('C02.A', f'{name}: the 14 binary operators')
        else:
            chk.bad('C02.A', mod, name, f'{name} differs by {sorted(s ^ ref)}',
                    f'the binary operator set of the {name} differs from the language by {sorted(s ^ ref)}: an operator is tokenised but not ordered/evaluated (or vice versa)')
    if len(alts) != len(set(alts)):
        chk.bad('C02.A', mod, bin_rx[0].name, 'duplicate alternative', 'the operator alternation lists an operator twice')
    ualts = group_language(un_rx[0], 1)
    uen = sch.enums.get('UnaryExpressionOperator', [])
    if set(ualts) == set(uen) == {'!', '-'}:
        chk.ok('C02.A', 'unary operators: tokeniser alternation = schema enum = {!, -}')
    else:
        chk.bad('C02.A', mod, un_rx[0].name, f'unary {sorted(ualts)} vs enum {sorted(uen)}', 'unary operator tokeniser and schema enum disagree')
    # C02.L longest match
    for i, p in enumerate(alts):
        for j, q in enumerate(alts):
            if p != q and q.startswith(p):
                if j < i:
                    chk.ok('C02.L', f'{q!r} is tried before its prefix {p!r}')
                else:
                    chk.bad('C02.L', mod, bin_rx[0].name, f'{p!r} before {q!r}',
                            f'in the operator alternation {p!r} is tried before {q!r}: `a {q} b` is tokenised as {p!r} followed by {q[len(p):]!r}')
    return bin_rx[0], un_rx[0]


# ------------------------------------------------------------------------------------------------ E6x simulation
N = ('name',)
NUM = ('num',)
LP, RP, CM = ('(',), (')',), (',',)


def op(s):
    return ('op', s)


def chains(length):
    ops = list(RUNG)
    for combo in itertools.product(ops, repeat=length):
        toks = [N]
        for o in combo:
            toks += [op(o), N]
        yield toks


REP = ['**', '*', '+', '<', '==', '&&', '||']     # one operator per rung
OPERAND_FORMS = {
    'number': [NUM], 'signed-plus number': [op('+'), NUM], 'negated number': [op('-'), NUM], 'string': [('str1',)], 'double-quoted string': [('str2',)],
    'bracket variable': [('varex',)], 'negation': [op('-'), N], 'not': [op('!'), N], 'not-minus': [op('!'), op('-'), N], 'minus-not': [op('-'), op('!'), N],
    'minus-minus': [op('-'), op('-'), N], 'not-not-minus': [op('!'), op('!'), op('-'), N], 'minus-not-number': [op('-'), op('!'), NUM],
    'group': [LP, N, RP], 'nested group': [LP, LP, N, RP, RP], 'call()': [N, LP, RP], 'call(a)': [N, LP, N, RP], 'call(a, b)': [N, LP, N, CM, N, RP],
    'call(a, b, c)': [N, LP, N, CM, N, CM, N, RP], 'call(call())': [N, LP, N, LP, RP, RP], 'minus group': [op('-'), LP, N, RP], 'not call': [op('!'), N, LP, N, RP],
    'call(-a)': [N, LP, op('-'), N, RP], 'call((a))': [N, LP, LP, N, RP, RP],
}


def operand_sequences():
    for name, form in OPERAND_FORMS.items():
        yield name, list(form)
        for o1 in REP:
            yield name, [N, op(o1)] + form
            yield name, form + [op(o1), N]
            for o2 in REP:
                yield name, [N, op(o1)] + form + [op(o2), N]
    for o1 in REP:
        for o2 in REP:
            yield 'group', [LP, N, op(o1), N, RP, op(o2), N]
            yield 'group', [N, op(o1), LP, N, op(o2), N, RP]
            yield 'call(a op b, c)', [N, LP, N, op(o1), N, CM, N, op(o2), N, RP]
            yield 'minus group', [op('-'), LP, N, op(o1), N, RP, op(o2), N]
            yield 'negation', [op('-'), N, op(o1), op('-'), N, op(o2), op('!'), N]


ILL_FORMED = {
    'empty text': [], 'operator only': [op('+')], 'two operands': [N, N], 'dangling operator': [N, op('+')], 'operator twice': [N, op('*'), op('*'), N],
    'unclosed group': [LP, N], 'unclosed group after operator': [LP, N, op('+')], 'stray close': [N, RP], 'unclosed call': [N, LP, N],
    'arguments without separator': [N, LP, N, N, RP], 'leading separator': [N, LP, CM, N, RP], 'trailing separator': [N, LP, N, CM, RP],
    'lone !': [op('!')], 'lone -': [op('-')], '! as binary operator': [N, op('!'), N], 'unknown character': [('junk',)], 'unknown character after operand': [N, ('junk',)],
    'empty group': [LP, RP], 'number applied like a call': [NUM, LP, N, RP], 'comma outside a call': [N, CM, N], 'two strings': [('str1',), ('str1',)],
    'unary plus': [op('+'), N], 'group then operand': [LP, N, RP, N], 'unknown character in arguments': [N, LP, N, ('junk',), RP],
    'unclosed group in chain': [N, op('+'), LP, N, op('*'), N], 'separator in group': [LP, N, CM, N, RP],
}


def _linear(v):
    """Sym arithmetic over len(Text@k) -> {k: coeff, 'c': const} or None"""
    if isinstance(v, int) and not isinstance(v, bool):
        return {'c': v}
    if isinstance(v, Sym) and v.kind == 'len' and isinstance(v.args[0], AStream) and v.args[0].aligned:
        return {v.args[0].pos: 1}
    if isinstance(v, Sym) and v.kind == 'binop' and v.args[0] in ('Add', 'Sub'):
        a, b = _linear(v.args[1]), _linear(v.args[2])
        if a is None or b is None:
            return None
        out = dict(a)
        for k, c in b.items():
            out[k] = out.get(k, 0) + (c if v.args[0] == 'Add' else -c)
        return {k: c for k, c in out.items() if c != 0}
    return None


def simulate(chk, mod, rxs, tier):
    it = ExprInterp(mod, rxs, 'C02.S')
    stats = {'chains': 0, 'operand sequences': 0, 'ill-formed': 0}

    def run_one(rule, label, toks, reported, limit=6):
        try:
            want = reference(toks)
        except Reject:
            want = None
        got = it.parse(toks)
        text = show(toks)
        if got[0] == 'reject':
            sig = got[1]
            if sig.cls != 'BareScriptParserError':
                if len(reported) < limit:
                    chk.bad(rule, mod, 'parse_expression', f'{label}: host {sig.cls}', f'parsing `{text}` raises the host exception {sig.cls}{sig.args_!r} '
                            f'({norm(sig.node)[:80] if sig.node is not None else ""}) instead of a tree or a parser error', node=sig.node)
                reported.append(text)
                return None
            if want is not None:
                if len(reported) < limit:
                    chk.bad(rule, mod, 'parse_expression', f'{label}: rejected', f'`{text}` is a well-formed expression ({pretty(want)}) but the parser rejects it', node=sig.node)
                reported.append(text)
                return None
            return ('reject', sig)
        if want is None:
            if len(reported) < limit:
                chk.bad('C02.R', mod, 'parse_expression', f'{label}: accepted', f'`{text}` is not a well-formed expression ({label}) but the parser accepts it as {pretty(normal(got[1]))}')
            reported.append(text)
            return None
        have = normal(got[1])
        if have != want:
            if len(reported) < limit:
                chk.bad(rule, mod, '_parse_binary_expression' if rule == 'C02.S' else '_parse_unary_expression', f'{label}: wrong tree',
                        f'`{text}` parses to {pretty(have)}; the precedence ladder (left-associative) dictates {pretty(want)}')
            reported.append(text)
            return None
        return ('tree', have)

    # C02.S: every operator chain
    depth = 4
    for length in range(1, depth + 1):
        bad = []
        n = 0
        if length == 4:
            n, bad = _chains_parallel(chk, mod, rxs)
        else:
            for toks in chains(length):
                n += 1
                run_one('C02.S', f'chain of {length}', toks, bad)
        stats['chains'] += n
        if not bad:
            chk.ok('C02.S', f'all {n} operator chains of length {length} (a op b ...): the interpreted parser builds exactly the tree of the ladder (E6x)', count=n)
        elif len(bad) > 6:
            chk.note(f'C02.S: {len(bad)} of {n} chains of length {length} parse to the wrong tree (first 6 reported)')
    if tier == 'thorough':
        bad, n = [], 0
        for combo in itertools.product(REP, repeat=5):
            toks = [N]
            for o in combo:
                toks += [op(o), N]
            n += 1
            run_one('C02.S', 'chain of 5', toks, bad)
        stats['chains'] += n
        if not bad:
            chk.ok('C02.S', f'all {n} chains of 5 operators drawn one per rung (7^5): trees agree with the ladder (E6x)', count=n)
    # C02.D / C02.U: operand forms
    per_form = {}
    for name, toks in operand_sequences():
        rule = 'C02.U' if any(t in (op('-'), op('!')) for t in OPERAND_FORMS.get(name, [])[:1]) else 'C02.D'
        rec = per_form.setdefault((rule, name), [0, []])
        rec[0] += 1
        run_one(rule, name, toks, rec[1], limit=2)
        stats['operand sequences'] += 1
    for (rule, name), (n, bad) in per_form.items():
        if not bad:
            chk.ok(rule, f'operand form `{name}`: {n} contexts (alone, left/right of one operator per rung, between two) parse to the dictated tree', count=n)
    # C02.R / C02.X: ill-formed text
    for label, toks in ILL_FORMED.items():
        stats['ill-formed'] += 1
        bad = []
        r = run_one('C02.R', label, toks, bad)
        if r is None:
            continue
        chk.ok('C02.R', f'{label} (`{show(toks)}`) is rejected with BareScriptParserError')
        sig = r[1]
        # every raise on the way carried a suffix of the input; the final column is len(input) - len(suffix) + 1
        for inner in it.raises:
            if inner.cls != 'BareScriptParserError' or len(inner.args_) < 2:
                continue
            t = inner.args_[1]
            if not isinstance(t, AStream) or not t.aligned:
                chk.bad('C02.X', mod, 'parse_expression', f'{label}: error text {t!r}', f'while rejecting `{show(toks)}` the parser error carries {t!r}, which is not a suffix of the input cut at a token boundary: '
                        f'the column computed from its length is wrong', node=inner.node)
        col = sig.args_[2] if len(sig.args_) > 2 else 1
        lin = _linear(col)
        if lin is None:
            raise Unrecognised('C02.X', f'column expression {col!r} not linear in text lengths', mod.rel)
        ks = sorted(k for k in lin if k != 'c')
        at = None
        if lin.get('c') == 1 and len(ks) == 2 and ks[0] == 0 and lin[0] == 1 and lin[ks[1]] == -1:
            at = ks[1]
        elif lin == {'c': 1}:
            at = 0
        if at is None or not (isinstance(sig.args_[1], AStream) and sig.args_[1].pos == 0):
            chk.bad('C02.X', mod, 'parse_expression', f'{label}: column {col!r}', f'rejecting `{show(toks)}`: the reported column is {col!r}, not len(input) - len(offending suffix) + 1 over the whole input', node=sig.node)
        else:
            chk.ok('C02.X', f'{label}: reported text is the whole input, column = 1 + offset of token {at}')
    chk.extra['simulation'] = stats
    return stats


def _chain_job(args):
    root, start, stop = args
    from ..core import Repo
    repo = Repo(root)
    mod = repo.module('parser')
    rxs = classify_expr_regexes(mod)
    it = ExprInterp(mod, rxs, 'C02.S')
    ops = list(RUNG)
    out = []
    n = 0
    for ix in range(start, stop):
        combo = []
        x = ix
        for _ in range(4):
            combo.append(ops[x % 14])
            x //= 14
        toks = [N]
        for o in combo:
            toks += [op(o), N]
        n += 1
        try:
            got = it.parse(toks)
        except Unrecognised as exc:
            return ('unrec', str(exc))
        want = reference(toks)
        if got[0] != 'tree':
            out.append((show(toks), f'{got[1].cls}', pretty(want)))
        elif normal(got[1]) != want:
            out.append((show(toks), pretty(normal(got[1])), pretty(want)))
    return ('ok', n, out)


def _chains_parallel(chk, mod, rxs):
    import multiprocessing as mp
    total = 14 ** 4
    step = total // 32 + 1
    jobs = [(chk.repo.root, a, min(a + step, total)) for a in range(0, total, step)]
    if os.environ.get('VERIF_SERIAL'):
        results = [_chain_job(j) for j in jobs]
    else:
        with mp.Pool(min(16, os.cpu_count() or 1)) as pool:
            results = pool.map(_chain_job, jobs)
    n, bad = 0, []
    for r in results:
        if r[0] == 'unrec':
            raise Unrecognised('C02.S', r[1], mod.rel)
        n += r[1]
        for text, have, want in r[2]:
            if len(bad) < 6:
                chk.bad('C02.S', mod, '_parse_binary_expression', 'chain of 4: wrong tree', f'`{text}` parses to {have}; the precedence ladder (left-associative) dictates {want}')
            bad.append(text)
    return n, bad


def check_number_literals(chk, rule, allow_int=False):
    """every literal form the number regex accepts (digits, with fraction, with exponent, both; alone and inside a chain) is converted by float(<its own text>)"""
    mod = chk.repo.module('parser')
    rxs = classify_expr_regexes(mod)
    it = ExprInterp(mod, rxs, rule)
    n = 0
    for flavour, example in (('int', '12'), ('dot', '1.5'), ('exp', '1e+16'), ('dotexp', '1.5e-07')):
        for toks in ([('num', flavour)], [N, op('+'), ('num', flavour)], [op('-'), ('num', flavour)], [N, LP, ('num', flavour), RP]):
            n += 1
            got = it.parse(toks)
            if got[0] == 'reject':
                sig = got[1]
                chk.bad(rule, mod, '_parse_unary_expression', f'literal like {example}: {sig.cls}', f'a number literal of the form {example} (as in `{show(toks)}`) makes the parser raise {sig.cls}{sig.args_[:1]!r}: '
                        f'text the runtime prints for a number is not accepted back as a literal', node=sig.node)
                break
            leaves = []

            def walk(v):
                if isinstance(v, dict):
                    if set(v) == {'number'}:
                        leaves.append(v['number'])
                    for x in v.values():
                        walk(x)
                elif isinstance(v, list):
                    for x in v:
                        walk(x)
            walk(got[1])
            good = len(leaves) == 1 and isinstance(leaves[0], Sym) and leaves[0].kind in (('float', 'int') if allow_int else ('float',)) and isinstance(leaves[0].args[0], Sym) \
                and leaves[0].args[0].kind == 'lexeme'
            if not good:
                chk.bad(rule, mod, '_parse_unary_expression', f'literal like {example} becomes {leaves!r}',
                        f'a number literal of the form {example} is not converted by float() of its own text (it becomes {leaves!r}): number literals must always be floats denoting the written number')
                break
        else:
            chk.ok(rule, f'number literals like {example}: converted by float(<the literal text>) in every position (E6x)', count=4)


def check_error_texts(chk, mod):
    """C06.X entry point: only the ill-formed part of the simulation (shared with C02.X / C02.R)"""
    rxs = classify_expr_regexes(mod)
    it_rule = 'C06.X'
    before = len(chk.findings)
    simulate_ill = ILL_FORMED
    it = ExprInterp(mod, rxs, it_rule)
    for label, toks in simulate_ill.items():
        got = it.parse(toks)
        if got[0] != 'reject' or got[1].cls != 'BareScriptParserError':
            continue        # C02.R's business
        sig = got[1]
        ok = True
        for inner in it.raises:
            if inner.cls == 'BareScriptParserError' and len(inner.args_) >= 2 and not (isinstance(inner.args_[1], AStream) and inner.args_[1].aligned):
                ok = False
                chk.bad('C06.X', mod, 'parse_expression', f'{label}: error text {inner.args_[1]!r}', f'while rejecting `{show(toks)}` the parser error carries {inner.args_[1]!r}, which is not a suffix of the input '
                        f'cut at a token boundary: the column computed from its length points at the wrong character', node=inner.node)
        col = sig.args_[2] if len(sig.args_) > 2 else 1
        lin = _linear(col)
        if lin is None:
            raise Unrecognised('C06.X', f'column expression {col!r} not linear in text lengths', mod.rel)
        ks = sorted(k for k in lin if k != 'c')
        good = (lin.get('c') == 1 and len(ks) == 2 and ks[0] == 0 and lin[0] == 1 and lin[ks[1]] == -1) or lin == {'c': 1}
        if not good or not (isinstance(sig.args_[1], AStream) and sig.args_[1].pos == 0):
            ok = False
            chk.bad('C06.X', mod, 'parse_expression', f'{label}: column {col!r}', f'rejecting `{show(toks)}`: the reported column is {col!r}, not len(input) - len(offending suffix) + 1 over the whole input', node=sig.node)
        if ok:
            chk.ok('C06.X', f'{label}: error text is a suffix of the input and the column is 1 + its offset (E6x)')


def check_identifiers(chk, mod, rxs):
    """C02.I: every place that names a function / variable accepts the same identifier language"""
    ident = {}
    for name, (kind, rx) in rxs.items():
        if kind in ('function_open', 'variable'):
            g = rx.group_node(1)
            if g is not None:
                ident[f'{kind} ({name})'] = repr(g.kids[0])
    from ..lowering import ParserModel
    for name, rg in mod.regexes().items():
        try:
            rx = Rx(rg.pattern, rg.flags, name)
        except Unrecognised:
            continue
        for gname in ('name', 'value', 'index'):
            g = rx.group_node(gname)
            if g is not None and name.startswith('_R_SCRIPT') or (g is not None and rx.anchored_end()):
                ident[f'{gname} of {name}'] = repr(g.kids[0])
    if len(ident) < 6:
        raise Unrecognised('C02.I', f'only {len(ident)} identifier patterns found', mod.rel)
    ref = ident.get(next((k for k in ident if k.startswith('variable')), None))
    for where, pat in sorted(ident.items()):
        if pat == ref:
            chk.ok('C02.I', f'{where}: same identifier pattern as variable references')
        else:
            chk.bad('C02.I', mod, where.split('(')[-1].strip(')').split(' of ')[-1], f'{where}: identifier pattern differs',
                    f'{where} accepts a different set of names than variable references ({pat} vs {ref}): a name accepted where it is defined is rejected where it is used '
                    f'(e.g. a function with a one-character name can be defined but a call of it is a syntax error)')


def check_expressions_concrete(chk, rule='C02.C'):
    """parse_expression evaluated (E6p) on concrete expression texts against the independent front-end"""
    from .. import parsesim
    n, problems = parsesim.run_expressions(chk.repo, chk.tier, rule)
    mod = chk.repo.module('parser')
    if problems:
        by = {}
        for k, msg in problems:
            by.setdefault(k, []).append(msg)
        for k, msgs in by.items():
            chk.bad(rule, mod, 'parse_expression', f'{k}: {msgs[0][:110]}', f'evaluation of parse_expression on {n} expression texts: {msgs[0][:500]} ({len(msgs)} texts deviate this way)',
                    node=mod.funcs.get('parse_expression'))
        return False
    chk.ok(rule, f'{n} expression texts (every chain of 1-2 operators, a third of the 3-operator and a sample of the 4-operator chains, prefix operator runs, number / string / bracket-variable '
           f'literals incl. plus-signed numbers, calls, groups, blank variations, 25 ill-formed texts) parse to the tree the precedence and associativity rules dictate, or are rejected', count=n)
    return True


def run(chk):
    chk.rule('C02.C', 'parse_expression evaluated on concrete expression texts = the tree of the independent front-end (sa/barefront.py); ill-formed texts rejected', floor=1000)
    chk.guard('C02.C', check_expressions_concrete, chk)
    chk.rule('C02.I', 'identifier patterns agree between definitions, variable references and calls', floor=6)
    chk.rule('C02.T', 'precedence table = strictly-lower-rung sets (14 rows)', floor=14)
    chk.rule('C02.A', 'operator sets agree: tokeniser, table, schema, evaluator', floor=5)
    chk.rule('C02.L', 'longest operator first in the ordered alternation', floor=3)
    chk.rule('C02.S', 'operator chains parse to the tree of the ladder (abstract interpretation over token streams, E6x)', floor=4)
    chk.rule('C02.D', 'operand forms (literals, groups, calls) in operator contexts parse to the dictated tree', floor=12)
    chk.rule('C02.U', 'prefix operators nest right-to-left around the following operand, tighter than any binary operator', floor=6)
    chk.rule('C02.R', 'ill-formed token sequences are rejected with BareScriptParserError', floor=20)
    chk.rule('C02.X', 'remainders and error texts are suffixes of the input; column = 1 + offset', floor=20)
    chk.assumptions += ['regex engine semantics (ordered alternation, anchors) are CPython\'s; the spine argument (table + loop shape => precedence/associativity) is pencil-and-paper, see DESIGN.md']
    mod = chk.repo.module('parser')
    table = chk.guard('C02.T', check_table, chk, mod)
    rxs = classify_expr_regexes(mod)
    chk.extra['expression_regexes'] = {n: k for n, (k, _r) in rxs.items()}
    if table is not None:
        chk.guard('C02.A', check_agreement, chk, mod, table, rxs)
    chk.guard('C02.S', simulate, chk, mod, rxs, chk.tier)
    chk.guard('C02.I', check_identifiers, chk, mod, rxs)
