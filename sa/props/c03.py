"""C03 - expression evaluation follows the typed operator semantics."""
import ast

from ..core import Unrecognised, call_name, const_str, norm, walk_no_nested, if_chain, is_name
from ..atoms import ATOMS, AtomEval, Unknown, BARE_TYPE
from ..rt import EvalExpr, ARITH, REL, LOGIC, ALL_BINARY
from .. import schema as schema_mod

EXPLANATION = (
    'The evaluator is read back as a table and compared with the language definition. C03.X: node kinds and operators '
    'dispatched = the schema unions/enums. C03.T: for every arithmetic operator and every ordered pair of 13 host type '
    'atoms (6 x 169) the dispatch ladder is evaluated symbolically; the action selected (host operator on (left, right), '
    'string concatenation with value_string on the non-string side, datetime +/- with milliseconds, or null) must equal '
    'the action the language defines for that operand-type pair - this covers "unsupported operand types yield null", '
    'bool is not a number, operand order, and the operator <-> host operator table. C03.S: && / || return the left '
    'VALUE or evaluate the right operand, decided by value_boolean(left) with the right polarity, before the '
    'unconditional right evaluation. C03.E: each operand is evaluated exactly once, left first; call arguments by one '
    'comprehension in list order before the call. C03.I: if() evaluates the condition once and only the selected '
    'branch. C03.B: expression-mode aliases resolve to the same library function objects and agree with the '
    'documented alias table; built-ins are consulted only after locals and globals. Decides the dispatch/guard/'
    'order structure, not numerical results.')
ENUMERATION = ('6 arithmetic operators x 169 atom pairs (C03.T), union/enum members (C03.X), 2 logical operators x 2 '
               'truth values (C03.S), evaluation sites (C03.E), if() clauses (C03.I), 46 aliases (C03.B); '
               'distinct by (rule, construct); trivial = pairs whose expected action is null and which reach null')

NUM = {'int', 'float'}
DT = {'date', 'datetime'}
HOST_OP = {'+': ast.Add, '-': ast.Sub, '*': ast.Mult, '/': ast.Div, '%': ast.Mod, '**': ast.Pow}

ALIASES = {
    'abs': 'mathAbs', 'acos': 'mathAcos', 'asin': 'mathAsin', 'atan': 'mathAtan', 'atan2': 'mathAtan2', 'ceil': 'mathCeil',
    'charCodeAt': 'stringCharCodeAt', 'cos': 'mathCos', 'date': 'datetimeNew', 'day': 'datetimeDay', 'endsWith': 'stringEndsWith',
    'indexOf': 'stringIndexOf', 'fixed': 'numberToFixed', 'floor': 'mathFloor', 'fromCharCode': 'stringFromCharCode',
    'hour': 'datetimeHour', 'lastIndexOf': 'stringLastIndexOf', 'len': 'stringLength', 'lower': 'stringLower', 'ln': 'mathLn',
    'log': 'mathLog', 'max': 'mathMax', 'min': 'mathMin', 'millisecond': 'datetimeMillisecond', 'minute': 'datetimeMinute',
    'month': 'datetimeMonth', 'now': 'datetimeNow', 'parseInt': 'numberParseInt', 'parseFloat': 'numberParseFloat', 'pi': 'mathPi',
    'rand': 'mathRandom', 'replace': 'stringReplace', 'rept': 'stringRepeat', 'round': 'mathRound', 'second': 'datetimeSecond',
    'sign': 'mathSign', 'sin': 'mathSin', 'slice': 'stringSlice', 'sqrt': 'mathSqrt', 'startsWith': 'stringStartsWith',
    'text': 'stringNew', 'tan': 'mathTan', 'today': 'datetimeToday', 'trim': 'stringTrim', 'upper': 'stringUpper', 'year': 'datetimeYear',
}


def expected_action(op, a, b):
    if op == '+':
        if a in NUM and b in NUM:
            return ('host', '+')
        if a == 'str' and b == 'str':
            return ('host', '+')
        if a == 'str':
            return ('concat', 'right-stringified')
        if b == 'str':
            return ('concat', 'left-stringified')
        if a in DT and b in NUM:
            return ('dtplus', 'left')
        if a in NUM and b in DT:
            return ('dtplus', 'right')
        return ('null',)
    if op == '-':
        if a in NUM and b in NUM:
            return ('host', '-')
        if a in DT and b in DT:
            return ('dtminus',)
        return ('null',)
    if a in NUM and b in NUM:
        return ('host', op)
    return ('null',)


def inline(node, defs, depth=0):
    """replace single-assignment local names by their definitions (expression level)"""
    if depth > 6:
        return node

    class T(ast.NodeTransformer):
        def visit_Name(self, n):
            if isinstance(n.ctx, ast.Load) and n.id in defs and defs[n.id] is not None:
                return inline(defs[n.id], defs, depth + 1)
            return n
    import copy
    return T().visit(copy.deepcopy(node))


def inline_helpers(node, mod, depth=0):
    """replace calls of same-module helper functions whose body is [single-assignment locals] + `return <expr>` by that expression (arguments substituted)"""
    if depth > 3 or mod is None:
        return node
    import copy

    class T(ast.NodeTransformer):
        def visit_Call(self, n):
            self.generic_visit(n)
            if isinstance(n.func, ast.Name) and n.func.id in getattr(mod, 'funcs', {}) and not n.keywords:
                f = mod.funcs[n.func.id]
                body = [s for s in f.body if not (isinstance(s, ast.Expr) and isinstance(s.value, ast.Constant))]
                params = [a.arg for a in f.args.args]
                if body and isinstance(body[-1], ast.Return) and body[-1].value is not None and all(isinstance(s, ast.Assign) for s in body[:-1]) \
                        and len(params) == len(n.args) and not f.args.vararg and not f.args.kwarg and not any(isinstance(x, (ast.Lambda, ast.IfExp)) for x in ast.walk(body[-1].value)):
                    defs = body_defs(body[:-1])
                    if any(v is None for v in defs.values()) or set(defs) & set(params):
                        return n
                    defs.update({p: a for p, a in zip(params, n.args)})
                    return inline_helpers(inline(body[-1].value, defs), mod, depth + 1)
            return n
    return T().visit(copy.deepcopy(node))


def body_defs(stmts):
    out = {}
    for s in stmts:
        if isinstance(s, ast.Assign) and len(s.targets) == 1 and isinstance(s.targets[0], ast.Name):
            out[s.targets[0].id] = None if s.targets[0].id in out else s.value
    return out


def classify_action(stmts, L, R, rule, mod):
    """Classify what a selected dispatch alternative computes and returns."""
    rets = [s for s in stmts if isinstance(s, ast.Return)]
    others = [s for s in stmts if not isinstance(s, (ast.Return, ast.Assign))]
    if len(rets) != 1 or others or stmts[-1] is not rets[0]:
        raise Unrecognised(rule, f'operator alternative is not [assignments] + return: {norm(stmts[0])[:80]}', mod.rel)
    defs = body_defs(stmts)
    val = rets[0].value
    # `result if <guard on result> else None` / `None if ... else result`
    guard = None
    if isinstance(val, ast.IfExp):
        if isinstance(val.orelse, ast.Constant) and val.orelse.value is None:
            guard, val = val.test, val.body
        elif isinstance(val.body, ast.Constant) and val.body.value is None:
            guard, val = val.test, val.orelse
    e = inline(val, defs)
    e = inline_helpers(e, mod if hasattr(mod, 'funcs') else None)
    if guard is not None:
        g = inline(guard, defs)
        names = {n.id for n in ast.walk(g) if isinstance(n, ast.Name)} - {'isinstance', 'complex', 'math', 'float', 'int'}
        gtxt = norm(g)
        if not ('isinstance' in gtxt or 'math.is' in gtxt):
            raise Unrecognised(rule, f'result guard not understood: {gtxt}', mod.rel)
    if isinstance(e, ast.Constant) and e.value is None:
        return ('null',)
    if isinstance(e, ast.BinOp):
        l, r = e.left, e.right
        lt, rt = norm(l), norm(r)
        if (lt, rt) == (L, R):
            for sym, cls in HOST_OP.items():
                if isinstance(e.op, cls):
                    return ('host', sym)
        if (lt, rt) == (R, L):
            for sym, cls in HOST_OP.items():
                if isinstance(e.op, cls):
                    return ('host-swapped', sym)
        if isinstance(e.op, ast.Add):
            if lt == L and isinstance(r, ast.Call) and call_name(r) == 'value_string' and [norm(a) for a in r.args] == [R]:
                return ('concat', 'right-stringified')
            if rt == R and isinstance(l, ast.Call) and call_name(l) == 'value_string' and [norm(a) for a in l.args] == [L]:
                return ('concat', 'left-stringified')
            if isinstance(l, ast.Call) and call_name(l) == 'value_string' and rt == L or (lt == R and isinstance(r, ast.Call) and call_name(r) == 'value_string'):
                return ('concat', 'operands-swapped')
            if (lt in (L, R) and isinstance(r, ast.Call) and call_name(r) in ('str', 'repr', 'value_json')) or \
                    (rt in (L, R) and isinstance(l, ast.Call) and call_name(l) in ('str', 'repr', 'value_json')):
                return ('concat', 'host-stringified')
            # datetime + timedelta
            for dt_side, td_side in ((l, r), (r, l)):
                if isinstance(dt_side, ast.Call) and call_name(dt_side) == 'value_normalize_datetime' and isinstance(td_side, ast.Call) \
                        and (call_name(td_side) or '').endswith('timedelta'):
                    who = norm(dt_side.args[0]) if dt_side.args else '?'
                    kws = {kw.arg: norm(kw.value) for kw in td_side.keywords}
                    if td_side.args or set(kws) != {'milliseconds'}:
                        return ('dtplus-unit', f'timedelta({", ".join(norm(a) for a in td_side.args)}{", ".join(f"{k}={v}" for k, v in kws.items())})')
                    num = kws['milliseconds']
                    if who == L and num == R:
                        return ('dtplus', 'left')
                    if who == R and num == L:
                        return ('dtplus', 'right')
                    return ('dtplus-operands', f'{who} + ms={num}')
            for dt_side, td_side in ((l, r), (r, l)):
                if isinstance(td_side, ast.Call) and (call_name(td_side) or '').endswith('timedelta') and norm(dt_side) in (L, R):
                    return ('dtplus-unnormalised', norm(e))
    # datetime + timedelta on a zone-converted operand
    for n in ast.walk(e):
        if isinstance(n, ast.BinOp) and isinstance(n.op, ast.Add):
            for dt_side, td_side in ((n.left, n.right), (n.right, n.left)):
                if isinstance(td_side, ast.Call) and (call_name(td_side) or '').endswith('timedelta') and 'value_normalize_datetime(' in norm(dt_side) \
                        and any(isinstance(x, ast.Attribute) and x.attr in ('astimezone', 'timestamp', 'utctimetuple', 'utcoffset') for x in ast.walk(dt_side)):
                    return ('dtplus-altered', f'{norm(n)[:100]}: the milliseconds are added to a zone-converted instant; datetime - datetime is naive local arithmetic, so (d + n) - d != n '
                                              f'when the sum crosses a UTC-offset change')
    # datetime - datetime: contains normalize(L) - normalize(R), total_seconds, factor 1000
    txt = norm(e)
    subs = [n for n in ast.walk(e) if isinstance(n, ast.BinOp) and isinstance(n.op, ast.Sub)
            and isinstance(n.left, ast.Call) and isinstance(n.right, ast.Call)
            and call_name(n.left) == call_name(n.right) == 'value_normalize_datetime']
    if subs:
        s = subs[0]
        order = (norm(s.left.args[0]), norm(s.right.args[0]))
        if order == (R, L):
            return ('dtminus-swapped',)
        if order != (L, R):
            return ('dtminus-operands', str(order))
        if '.total_seconds()' in txt:
            mults = [n for n in ast.walk(e) if isinstance(n, ast.BinOp) and isinstance(n.op, ast.Mult)
                     and any(isinstance(x, ast.Constant) for x in (n.left, n.right))]
            consts = [x.value for n in mults for x in (n.left, n.right) if isinstance(x, ast.Constant)]
            if consts == [1000]:
                return ('dtminus',)
            return ('dtminus-unit', f'factor {consts}')
        if 'timedelta(milliseconds=1)' in txt:
            return ('dtminus',)
        return ('dtminus-unit', 'no total_seconds() * 1000')
    wrapped = [n for n in ast.walk(e) if isinstance(n, ast.BinOp) and isinstance(n.op, ast.Sub)
               and f'value_normalize_datetime({L})' in norm(n.left) + norm(n.right) and f'value_normalize_datetime({R})' in norm(n.left) + norm(n.right)]
    if wrapped:
        return ('dtminus-altered', f'{norm(wrapped[0])[:90]}: the normalised operands are converted again before subtracting (datetime + number is naive local arithmetic, so (d + n) - d != n '
                                   f'across a DST change)')
    raw = [n for n in ast.walk(e) if isinstance(n, ast.BinOp) and isinstance(n.op, ast.Sub) and {norm(n.left), norm(n.right)} == {L, R}]
    if raw and '.total_seconds' in txt:
        return ('dtminus-unnormalised',)
    raise Unrecognised(rule, f'computation not classified: {txt[:100]}', mod.rel)


def select_alternative(chk, ee, stmts, env_pair, L, R):
    """Under the atom environment, which statements of a branch body run?  Returns list of stmts or [] (falls through)."""
    ev = AtomEval(chk.repo, ee.mod, {L: env_pair[0], R: env_pair[1]})
    for s in stmts:
        if isinstance(s, ast.Expr) and isinstance(s.value, ast.Constant):
            continue
        if isinstance(s, ast.If):
            for test, body in if_chain(s):
                if test is None or ev.test(test):
                    return body
            continue
        if isinstance(s, ast.Pass):
            continue
        return [x for x in stmts[stmts.index(s):]]
    return []


_CLASSIFY_CACHE = {}


def check_table(chk, ee, bs):
    L, R = bs.left, bs.right
    pending = []
    for op in ARITH:
        stmts = bs.branch(op, ALL_BINARY)
        if stmts is None:
            chk.unrec('C03.T', f'operator {op}: its dispatch branch was not located (whether it is implemented at all is decided by the operator coverage rule C03.X)', ee.mod.rel)
            continue
        mismatches = {}
        n_ok = 0
        for a in ATOMS:
            for b in ATOMS:
                want = expected_action(op, a, b)
                try:
                    sel = select_alternative(chk, ee, stmts, (a, b), L, R)
                    if sel:
                        ck = id(sel[0])
                        if ck not in _CLASSIFY_CACHE:
                            _CLASSIFY_CACHE[ck] = classify_action(sel, L, R, 'C03.T', ee.mod)
                        got = _CLASSIFY_CACHE[ck]
                    else:
                        got = ('null',)
                except Unknown as exc:
                    raise Unrecognised('C03.T', f"operator {op}: guard is not a pure type test: {exc}", ee.mod.rel)
                if got == want:
                    n_ok += 1
                    chk.ok('C03.T', f"'{op}' on ({a}, {b}) -> {'/'.join(got)}", trivial=(want == ('null',)))
                else:
                    mismatches.setdefault((got, want), []).append((a, b))
        pending.append((op, stmts, mismatches))
    kinds = {got[0] for _op, _st, mm in pending for (got, _w) in mm}
    both_aware = {'dtplus-altered', 'dtminus-altered'} <= kinds
    for op, stmts, mismatches in pending:
        for (got, want), pairs in mismatches.items():
            if both_aware and got[0] in ('dtplus-altered', 'dtminus-altered'):
                # + and - BOTH work on zone-converted instants: elapsed-time arithmetic on both sides may be consistent ((d + n) - d = n); not decided here
                chk.unrec('C03.T', f'operator {op} on datetimes converts through the time zone on both + and -: whether (d + n) - d = n still holds is not decided', ee.mod.rel)
                continue
            ex = ', '.join(f'{a} {op} {b}' for a, b in pairs[:4])
            if want == ('null',):
                what = (f"operator {op} is applied to operand types it does not support ({ex}{' ...' if len(pairs) > 4 else ''}): the language defines the result as null, "
                        f"the evaluator computes {'/'.join(got)}")
            elif got == ('null',):
                what = f"operator {op} yields null for supported operands ({ex}{' ...' if len(pairs) > 4 else ''}); the language defines {'/'.join(want)}"
            else:
                what = f"operator {op} on ({ex}{' ...' if len(pairs) > 4 else ''}) computes {'/'.join(got)}; the language defines {'/'.join(want)}"
            chk.bad('C03.T', ee.mod, 'evaluate_expression', f"'{op}': {'/'.join(got)} for {pairs[0][0]},{pairs[0][1]} (expected {'/'.join(want)})", what,
                    node=stmts[0] if stmts else None, detail={'pairs': pairs[:12]})


def check_unary(chk, ee):
    stmts = ee.sections.get('unary')
    if stmts is None:
        chk.bad('C03.X', ee.mod, 'evaluate_expression', 'unary', "no section for 'unary' nodes")
        return
    opv = val = None
    for s in stmts:
        if isinstance(s, ast.Assign) and isinstance(s.targets[0], ast.Name):
            if norm(s.value).endswith("['unary']['op']"):
                opv = s.targets[0].id
            elif isinstance(s.value, ast.Call) and call_name(s.value) == ee.func.name and norm(s.value.args[0]).endswith("['unary']['expr']"):
                val = s.targets[0].id
    if not opv or not val:
        raise Unrecognised('C03.T', 'unary section: operator / operand locals not found', ee.mod.rel)
    chains = [s for s in stmts if isinstance(s, ast.If)]
    if len(chains) != 1:
        raise Unrecognised('C03.T', 'unary section: expected one dispatch chain', ee.mod.rel)
    handled = set()
    for atom in ATOMS:
        ev = AtomEval(chk.repo, ee.mod, {val: atom})
        for op in ('!', '-'):
            got = ('null',)
            for test, body in if_chain(chains[0]):
                # evaluate `unary_op == 'x' [and guard]`
                res = _unary_test(test, opv, op, ev)
                if res:
                    rets = [s for s in body if isinstance(s, ast.Return)]
                    if len(rets) != 1:
                        raise Unrecognised('C03.T', 'unary alternative without a single return', ee.mod.rel)
                    v = rets[0].value
                    if isinstance(v, ast.UnaryOp) and isinstance(v.op, ast.Not) and isinstance(v.operand, ast.Call) and call_name(v.operand) == 'value_boolean' \
                            and norm(v.operand.args[0]) == val:
                        got = ('not-value_boolean',)
                    elif isinstance(v, ast.UnaryOp) and isinstance(v.op, ast.USub) and norm(v.operand) == val:
                        got = ('negate',)
                    elif isinstance(v, ast.UnaryOp) and isinstance(v.op, ast.Not) and norm(v.operand) == val:
                        got = ('not-host-truthiness',)
                    elif isinstance(v, ast.Constant) and v.value is None:
                        got = ('null',)
                    else:
                        raise Unrecognised('C03.T', f'unary result not classified: {norm(v)}', ee.mod.rel)
                    break
            want = ('not-value_boolean',) if op == '!' else (('negate',) if atom in NUM else ('null',))
            handled.add(op)
            if got == want:
                chk.ok('C03.T', f"unary '{op}' on {atom} -> {got[0]}", trivial=(want == ('null',)))
            else:
                chk.bad('C03.T', ee.mod, 'evaluate_expression', f"unary '{op}' on {atom}: {got[0]} (expected {want[0]})",
                        f"unary {op} applied to a {atom} operand computes {got[0]}; the language defines {want[0]}"
                        + (' (host truthiness differs from value_boolean for empty objects/arrays and datetimes)' if got == ('not-host-truthiness',) else ''),
                        node=chains[0])


def _unary_test(test, opv, op, ev):
    if test is None:
        return True
    parts = test.values if isinstance(test, ast.BoolOp) and isinstance(test.op, ast.And) else [test]
    res = True
    for p in parts:
        c = None
        if isinstance(p, ast.Compare) and len(p.ops) == 1 and isinstance(p.ops[0], ast.Eq) and norm(p.left) == opv and const_str(p.comparators[0]) is not None:
            c = const_str(p.comparators[0]) == op
        else:
            try:
                c = ev.test(p)
            except Unknown as exc:
                raise Unrecognised('C03.T', f'unary guard not a pure type test: {exc}')
        res = res and c
    return res


def check_dispatch(chk, ee, bs, coverage=True):
    vmod = chk.repo.module('model')
    sch = schema_mod.load(vmod, 'BARE_SCRIPT_TYPES', 'C03.X')
    kinds = set(sch.unions.get('Expression', {}))
    if not kinds:
        raise Unrecognised('C03.X', 'Expression union not found in the schema text', vmod.rel)
    handled = {k for k in ee.sections if k}
    rest = kinds - handled
    tail_ok = bool(ee.tail) and isinstance(ee.tail[-1], ast.Return)
    for k in sorted(kinds):
        if k in handled:
            chk.ok('C03.X', f"expression kind '{k}' has a section")
        elif len(rest) == 1 and tail_ok and f"['{k}']" in norm(ee.tail[-1]):
            chk.ok('C03.X', f"expression kind '{k}' handled by elimination: {norm(ee.tail[-1])[:60]}")
        else:
            chk.bad('C03.X', ee.mod, 'evaluate_expression', f"kind '{k}'", f"expression kind '{k}' of the schema's Expression union is not evaluated")
    for k in sorted(handled - kinds):
        chk.bad('C03.X', ee.mod, 'evaluate_expression', f"kind '{k}'", f"the evaluator dispatches on '{k}', which is not a member of the Expression union")
    if coverage:
        check_operator_coverage(chk, 'C03.X')


def check_operator_coverage(chk, rule):
    """every operator of the schema enum is implemented: `6 op 3` on number literals, abstractly evaluated, gives the arithmetic / relational / logical result"""
    from .. import evalsim
    vmod = chk.repo.module('model')
    sch = schema_mod.load(vmod, 'BARE_SCRIPT_TYPES', rule)
    ops = list(sch.enums.get('BinaryExpressionOperator', []))
    if len(ops) < 10:
        raise Unrecognised(rule, 'BinaryExpressionOperator enum not found', vmod.rel)
    res = evalsim.operator_coverage(chk.repo, ops, rule)
    rmod = chk.repo.module('runtime')
    for op in ops:
        got = res[op]
        want = evalsim.WANT_NUMBERS.get(op)
        if got[0] == 'undecided':
            chk.unrec(rule, f'operator {op}: abstract evaluation of `6 {op} 3` not decided ({got[1]})', rmod.rel)
        elif op not in evalsim.WANT_NUMBERS:
            chk.unrec(rule, f'operator {op} of the schema enum is not an operator of the language definition used by this check', vmod.rel)
        elif got == ('value', want) and type(got[1]) is type(want) or (got[0] == 'value' and isinstance(want, float) and isinstance(got[1], (int, float)) and not isinstance(got[1], bool) and got[1] == want):
            chk.ok(rule, f'operator {op} of the schema enum is implemented: 6 {op} 3 = {got[1]!r}')
        else:
            chk.bad(rule, rmod, 'evaluate_expression', f'6 {op} 3 = {got[1]!r}' if got[0] == 'value' else f'6 {op} 3 raises {got[1]}',
                    f'the operator {op} of the schema enum BinaryExpressionOperator is not implemented by the evaluator: 6 {op} 3 ' +
                    (f'evaluates to {got[1]!r}' if got[0] == 'value' else f'raises {got[1]}') + f' instead of {want!r}')
    return {op for op in ops if res[op][0] == 'value' and res[op][1] is not None}


def check_short_circuit(chk, ee, bs):
    L = bs.left
    fname = ee.func.name
    # position: both logical branches precede the unconditional right evaluation
    top = bs.stmts
    ix_right = top.index(bs.right_stmt) if bs.right_stmt in top else None
    for op, want in (('&&', {True: 'right', False: 'left'}), ('||', {True: 'left', False: 'right'})):
        body = bs.branches.get(op)
        if body is None:
            chk.bad('C03.S', ee.mod, 'evaluate_expression', f'operator {op}', f'no branch for {op}')
            continue
        # dominance: the chain node containing this branch is a top-level statement before right_stmt
        node = body[0]
        anc = node
        while getattr(anc, '_parent', None) is not None and anc not in top:
            anc = anc._parent
        if ix_right is None or anc not in top or top.index(anc) > ix_right:
            chk.bad('C03.S', ee.mod, 'evaluate_expression', f"'{op}' after right operand",
                    f'the {op} branch does not precede the unconditional evaluation of the right operand: the right operand is evaluated even when the left decides',
                    node=node)
            continue
        for truth in (True, False):
            got = _run_logic(body, L, fname, truth)
            if got == want[truth]:
                chk.ok('C03.S', f"'{op}' with left {'truthy' if truth else 'falsy'} -> {got}")
            elif got is None:
                raise Unrecognised('C03.S', f"'{op}' branch not understood", ee.mod.rel)
            else:
                chk.bad('C03.S', ee.mod, 'evaluate_expression', f"'{op}' left {'truthy' if truth else 'falsy'} -> {got}",
                        f"operator {op} with a {'truthy' if truth else 'falsy'} left operand must "
                        f"{'evaluate and return the right operand' if want[truth] == 'right' else 'return the left VALUE without evaluating the right operand'}; the branch gives: {got}",
                        node=node)


def _run_logic(stmts, L, fname, truth):
    """symbolically run a && / || branch for value_boolean(L) == truth -> 'left' | 'right' | description | None"""
    for s in stmts:
        if isinstance(s, ast.If):
            t = _truth_of(s.test, L, truth)
            if t is None:
                return None
            if isinstance(t, str):
                return t
            res = _run_logic(s.body if t else s.orelse, L, fname, truth)
            if res is not None:
                return res
            continue
        if isinstance(s, ast.Return):
            v = s.value
            if isinstance(v, ast.Name) and v.id == L:
                return 'left'
            if isinstance(v, ast.Call) and call_name(v) == fname and norm(v.args[0]).endswith("['binary']['right']"):
                return 'right'
            if isinstance(v, ast.BoolOp) or (isinstance(v, ast.IfExp) and norm(v.test) == L):
                return f'host truthiness of the left value decides ({norm(v)[:70]}): differs from value_boolean for empty objects, so the wrong operand is returned / evaluated'
            if isinstance(v, ast.IfExp):
                t = _truth_of(v.test, L, truth)
                if isinstance(t, bool):
                    return _run_logic([ast.Return(value=v.body if t else v.orelse)], L, fname, truth)
            if isinstance(v, ast.Constant):
                return f'constant {v.value!r} instead of an operand value'
            if isinstance(v, ast.Call) and call_name(v) == 'value_boolean':
                return f'a boolean ({norm(v)}) instead of the operand value'
            return f'unexpected result {norm(v)[:60]}'
        if isinstance(s, (ast.Expr, ast.Pass)):
            continue
        return None
    return None


def _truth_of(test, L, truth):
    if isinstance(test, ast.UnaryOp) and isinstance(test.op, ast.Not):
        t = _truth_of(test.operand, L, truth)
        return (not t) if isinstance(t, bool) else t
    if isinstance(test, ast.Call) and call_name(test) == 'value_boolean' and len(test.args) == 1 and norm(test.args[0]) == L:
        return truth
    if isinstance(test, ast.Name) and test.id == L:
        return 'host truthiness of the left value is tested instead of value_boolean (they differ for an empty object)'
    return None


def check_once(chk, ee, bs):
    fname = ee.func.name

    def evals(stmts, suffix):
        out = []
        for s in stmts:
            for n in ast.walk(s):
                if isinstance(n, ast.Call) and call_name(n) == fname and n.args and norm(n.args[0]).endswith(suffix):
                    out.append(n)
        return out
    lefts = evals(bs.stmts, "['binary']['left']")
    if len(lefts) == 1 and bs.left_stmt in bs.stmts:
        ixl = bs.stmts.index(bs.left_stmt)
        first_right = min((i for i, s in enumerate(bs.stmts) if evals([s], "['binary']['right']")), default=None)
        if first_right is not None and ixl < first_right:
            chk.ok('C03.E', 'binary: left operand evaluated exactly once, before any evaluation of the right operand')
        else:
            chk.bad('C03.E', ee.mod, 'evaluate_expression', 'binary: right before left', 'the right operand can be evaluated before the left operand', node=bs.left_stmt)
    else:
        chk.bad('C03.E', ee.mod, 'evaluate_expression', f'binary: {len(lefts)} evaluations of left', 'the left operand of a binary expression must be evaluated exactly once',
                node=bs.stmts[0])
    # right: at most one per path: one in each logical branch + exactly one unconditional at top level
    top_rights = [s for s in bs.stmts if evals([s], "['binary']['right']") and not isinstance(s, ast.If)]
    all_rights = evals(bs.stmts, "['binary']['right']")
    n_logic = sum(len(evals(bs.branches.get(op, []), "['binary']['right']")) for op in LOGIC)
    if len(top_rights) == 1 and len(all_rights) == n_logic + 1 and n_logic <= 2:
        chk.ok('C03.E', f'binary: right operand evaluated at most once on every path ({n_logic} lazy + 1 unconditional site)')
    else:
        chk.bad('C03.E', ee.mod, 'evaluate_expression', f'binary: {len(all_rights)} evaluations of right ({n_logic} in logical branches)',
                'the right operand of a binary expression can be evaluated more than once (or not at the single site after the short-circuit branches)',
                node=bs.stmts[0])
    for kind, suffix in (('unary', "['unary']['expr']"),):
        st = ee.sections.get(kind, [])
        n = len(evals(st, suffix))
        if n == 1:
            chk.ok('C03.E', f'{kind}: operand evaluated exactly once')
        else:
            chk.bad('C03.E', ee.mod, 'evaluate_expression', f'{kind}: {n} evaluations', f'the operand of a {kind} expression must be evaluated exactly once', node=st[0] if st else None)
    n = len(evals(ee.tail, "['group']"))
    if n == 1:
        chk.ok('C03.E', 'group: inner expression evaluated exactly once')
    else:
        chk.bad('C03.E', ee.mod, 'evaluate_expression', f'group: {n} evaluations', 'a group must evaluate its inner expression exactly once')
    # function arguments
    st = ee.sections.get('function', [])
    comps = []
    for s in st:
        for nnode in ast.walk(s):
            if isinstance(nnode, (ast.ListComp, ast.GeneratorExp)) and len(nnode.generators) == 1 \
                    and norm(nnode.generators[0].iter).endswith("['function']['args']") and isinstance(nnode.elt, ast.Call) and call_name(nnode.elt) == fname \
                    and norm(nnode.elt.args[0]) == norm(nnode.generators[0].target) and not nnode.generators[0].ifs:
                comps.append((s, nnode))
    calls = [(s, nnode) for s in st for nnode in ast.walk(s) if isinstance(nnode, ast.Call) and isinstance(nnode.func, ast.Name) and nnode.func.id.endswith('value')
             and len(nnode.args) == 2]
    if len(comps) != 1:
        chk.bad('C03.E', ee.mod, 'evaluate_expression', f'function: {len(comps)} argument comprehensions',
                'call arguments must be evaluated by exactly one comprehension over the args list, in list order', node=st[0] if st else None)
    else:
        cs, comp = comps[0]
        if isinstance(comp, ast.GeneratorExp) and not isinstance(getattr(comp, '_parent', None), ast.Call):
            chk.bad('C03.E', ee.mod, 'evaluate_expression', norm(comp)[:80], 'arguments are evaluated lazily by a generator: evaluation order relative to the call is lost', node=comp)
        call_stmt_ix = [st.index(_top(st, c[0])) for c in calls] if calls else []
        ix_comp = st.index(_top(st, cs))
        if calls and all(ix_comp < i for i in call_stmt_ix):
            chk.ok('C03.E', 'function: arguments evaluated once, in list order, before the callee is called')
        else:
            chk.bad('C03.E', ee.mod, 'evaluate_expression', 'function: argument evaluation order', 'arguments must be evaluated before the function value is called', node=cs)


def _top(stmts, s):
    while s not in stmts and getattr(s, '_parent', None) is not None:
        s = s._parent
    return s


def check_if(chk, ee):
    st = ee.sections.get('function', [])
    fname = ee.func.name
    name_var = None
    for s in st:
        if isinstance(s, ast.Assign) and isinstance(s.targets[0], ast.Name) and norm(s.value).endswith("['function']['name']"):
            name_var = s.targets[0].id
    block = None
    for s in st:
        if isinstance(s, ast.If) and isinstance(s.test, ast.Compare) and norm(s.test.left) == name_var and const_str(s.test.comparators[0]) == 'if':
            block = s
    if block is None:
        chk.bad('C03.I', ee.mod, 'evaluate_expression', "no `func_name == 'if'` block", 'the lazy if() built-in is not special-cased: both branches would be evaluated as ordinary arguments')
        return
    # before the argument comprehension
    comp_ix = next((i for i, s in enumerate(st) if any(isinstance(n, (ast.ListComp, ast.GeneratorExp)) and "['function']['args']" in norm(n) for n in ast.walk(s))
                    and s is not block), None)
    if comp_ix is not None and st.index(block) < comp_ix and isinstance(block.body[-1], ast.Return):
        chk.ok('C03.I', 'if(): handled (and returned from) before the argument comprehension')
    else:
        chk.bad('C03.I', ee.mod, 'evaluate_expression', 'if() after argument evaluation', 'if() is reached only after all arguments were evaluated: both branches run', node=block)
    defs = body_defs(block.body)
    evals = [n for s in block.body for n in ast.walk(s) if isinstance(n, ast.Call) and call_name(n) == fname]
    if len(evals) != 2:
        chk.bad('C03.I', ee.mod, 'evaluate_expression', f'if(): {len(evals)} evaluations',
                'if() must evaluate the condition once and exactly one of the two branch expressions', node=block)
        return
    # which list elements feed the selection
    args_var = None
    for k, v in defs.items():
        if v is not None and "['function']" in norm(v) and 'args' in norm(v):
            args_var = k

    def elem_index(name):
        v = defs.get(name)
        if v is None:
            return None
        for n in ast.walk(v):
            if isinstance(n, ast.Subscript) and norm(n.value) == args_var and isinstance(n.slice, ast.Constant):
                return n.slice.value
        return None
    sel = None
    for k, v in defs.items():
        if isinstance(v, ast.IfExp) and isinstance(v.test, ast.Call) and call_name(v.test) == 'value_boolean':
            sel = (k, v)
    if sel is None:
        for k, v in defs.items():
            if isinstance(v, ast.IfExp) and (isinstance(v.body, ast.Name) and isinstance(v.orelse, ast.Name)) and elem_index(v.body.id) is not None:
                chk.bad('C03.I', ee.mod, 'evaluate_expression', norm(v), 'if() selects its branch by host truthiness instead of value_boolean of the condition value', node=v)
                return
        raise Unrecognised('C03.I', 'if(): branch selection (X if value_boolean(v) else Y) not found', ee.mod.rel)
    k, v = sel
    cond_val = norm(v.test.args[0])
    ti = elem_index(v.body.id) if isinstance(v.body, ast.Name) else None
    fi = elem_index(v.orelse.id) if isinstance(v.orelse, ast.Name) else None
    ci = None
    cdef = defs.get(cond_val)
    if cdef is not None:
        for n in ast.walk(cdef):
            if isinstance(n, ast.Call) and call_name(n) == fname and isinstance(n.args[0], ast.Name):
                ci = elem_index(n.args[0].id)
    if (ci, ti, fi) == (0, 1, 2):
        chk.ok('C03.I', 'if(): condition = args[0] evaluated once; value_boolean selects args[1] when true, args[2] when false')
    else:
        chk.bad('C03.I', ee.mod, 'evaluate_expression', f'if(): cond=args[{ci}] true=args[{ti}] false=args[{fi}]',
                'if(cond, a, b) must evaluate args[0], then only args[1] when it is truthy and only args[2] otherwise', node=v)
    # only the selected one is evaluated
    final = block.body[-1]
    used = {n.id for n in ast.walk(final) if isinstance(n, ast.Name)}
    if k in used and not any(isinstance(n, ast.Call) and call_name(n) == fname and isinstance(n.args[0], ast.Name) and n.args[0].id in
                             {getattr(v.body, 'id', None), getattr(v.orelse, 'id', None)} for s in block.body for n in ast.walk(s)):
        chk.ok('C03.I', f'if(): only the selected expression ({k}) is evaluated')
    else:
        chk.bad('C03.I', ee.mod, 'evaluate_expression', norm(final)[:80], 'if() evaluates a branch expression other than the selected one', node=final)


def check_aliases(chk):
    lib = chk.repo.module('library')
    amap = lib.const('EXPRESSION_FUNCTION_MAP', 'C03.B')
    from ..lib import registry
    reg = registry(chk.repo, 'C03.B')
    if not isinstance(amap, dict):
        raise Unrecognised('C03.B', 'EXPRESSION_FUNCTION_MAP is not a literal dict', lib.rel)
    for alias, target in amap.items():
        if target not in reg:
            chk.bad('C03.B', lib, 'EXPRESSION_FUNCTION_MAP', f'{alias} -> {target}', f'expression built-in {alias} maps to {target}, which is not a registered library function')
        elif alias in ALIASES and ALIASES[alias] != target:
            chk.bad('C03.B', lib, 'EXPRESSION_FUNCTION_MAP', f'{alias} -> {target}',
                    f'expression built-in {alias}() is documented as an alias of {ALIASES[alias]} but resolves to {target}')
        else:
            chk.ok('C03.B', f'{alias} -> {target}', trivial=alias not in ALIASES)
    for alias in ALIASES:
        if alias not in amap:
            chk.bad('C03.B', lib, 'EXPRESSION_FUNCTION_MAP', f'{alias} missing', f'documented expression built-in {alias}() is no longer defined')
    # EXPRESSION_FUNCTIONS built from SCRIPT_FUNCTIONS[<mapped name>] for every item of the map
    node = lib.const_node('EXPRESSION_FUNCTIONS', 'C03.B')
    txt = norm(node)
    gens = [n for n in ast.walk(node) if isinstance(n, (ast.GeneratorExp, ast.DictComp, ast.ListComp))]
    good = False
    if len(gens) == 1 and len(gens[0].generators) == 1 and norm(gens[0].generators[0].iter) == 'EXPRESSION_FUNCTION_MAP.items()' and not gens[0].generators[0].ifs:
        tgt = gens[0].generators[0].target
        if isinstance(tgt, ast.Tuple) and len(tgt.elts) == 2:
            k, v = norm(tgt.elts[0]), norm(tgt.elts[1])
            if isinstance(gens[0], ast.DictComp):
                good = norm(gens[0].key) == k and norm(gens[0].value) == f'SCRIPT_FUNCTIONS[{v}]'
            else:
                good = norm(gens[0].elt) == f'({k}, SCRIPT_FUNCTIONS[{v}])'
    if good:
        chk.ok('C03.B', 'EXPRESSION_FUNCTIONS[alias] is SCRIPT_FUNCTIONS[EXPRESSION_FUNCTION_MAP[alias]] for every alias (same function object)')
    else:
        chk.bad('C03.B', lib, 'EXPRESSION_FUNCTIONS', txt[:120], 'the expression built-ins are not built by looking every alias up in SCRIPT_FUNCTIONS', node=node)


def check_lookup(chk, ee):
    """built-ins only under `builtins`, after locals and globals (shared with C04.L)"""
    st = ee.sections.get('function', [])
    for s in st:
        if isinstance(s, ast.If):
            chain = if_chain(s)
            if len(chain) == 3 and chain[2][0] is None and 'EXPRESSION_FUNCTIONS' in norm(ast.Module(body=chain[2][1], type_ignores=[])):
                t0, t1 = norm(chain[0][0]), norm(chain[1][0])
                els = norm(chain[2][1][0])
                locs, globs = ee.params[2] if len(ee.params) > 2 else 'locals_', 'globals_'
                builtins_param = ee.params[3] if len(ee.params) > 3 else 'builtins'
                if ' in ' + locs in t0 and ' in ' + globs in t1 and f'if {builtins_param} else None' in els:
                    chk.ok('C03.B', 'function lookup order: locals, globals, then built-ins only when builtins is true')
                else:
                    chk.bad('C03.B', ee.mod, 'evaluate_expression', f'{t0} / {t1} / {els}'[:150],
                            'function lookup must try locals, then globals, and the expression built-ins only when builtins is true', node=s)
                return
    raise Unrecognised('C03.B', 'function lookup chain (locals / globals / EXPRESSION_FUNCTIONS) not found', ee.mod.rel)


def check_operator_table(chk, keep=None):
    """C03.T: primary - the arithmetic operators and unary - / ! evaluated (E6e) on every ordered pair of sample operands of every value type against the language
    definition; the shape read-back of the dispatch (type-atom table) is advisory once the evaluation decided.  keep: predicate on instance text (shared use)"""
    from .. import evalsim
    cache = getattr(chk, '_optable', None)
    if cache is None:
        try:
            cache = chk._optable = evalsim.operator_table(chk.repo, 'C03.T')
        except Unrecognised as exc:
            chk.unrec('C03.T', f'operator table by evaluation: {exc.what}', exc.where)
            cache = chk._optable = (0, [('undecided', exc.what)])
    n, problems = cache
    mod = chk.repo.module('runtime')
    hard = [p for p in problems if p[0] == 'value']
    soft = [p for p in problems if p[0] == 'undecided']
    decided = n > 0 and not hard and not soft
    if hard:
        chk.bad('C03.T', mod, 'evaluate_expression', hard[0][1][:110], f'evaluation of the operators on {n} operand pairs: {hard[0][1]} ({len(hard)} pairs deviate)', node=mod.funcs.get('evaluate_expression'))
    elif soft and n:
        chk.unrec('C03.T', f'operator table by evaluation: {soft[0][1]} ({len(soft)} of {n} pairs undecided)', mod.rel)
    elif decided:
        chk.ok('C03.T', f'{n} evaluations: + - * / % ** on every ordered pair of 14 sample operands (null, boolean, int, float, zero, strings, datetime, date, array, object, function, '
               f'regex) and unary - / ! give the value the language defines: numeric result (null for a zero divisor / complex result), concatenation with the stringified operand, '
               f'normalised datetime + milliseconds, datetime difference in milliseconds, null for every other operand type', count=n)
    from ..rt import EvalExpr
    before = len(chk.instances)

    def shape():
        ee = EvalExpr(chk.repo, 'C03.T')
        bs = ee.binary()
        check_table(chk, ee, bs)
        check_unary(chk, ee)
    if decided:
        chk.advisory('C03.T', shape)
    else:
        chk.guard('C03.T', shape)
    if keep is not None:
        chk.instances[before:] = [i for i in chk.instances[before:] if keep(i['instance']) or i['verdict'] != 'OK']
    return decided


def run(chk):
    chk.rule('C03.X', 'dispatch exhaustive w.r.t. the schema (expression kinds, binary operators)', floor=8)
    chk.rule('C03.T', 'operator action table over 13x13 host type atoms equals the language definition', floor=6 * 169)
    chk.rule('C03.S', 'short circuit: && / || return the left value or evaluate the right, by value_boolean(left) (abstract evaluation, E6e)', floor=1)
    chk.rule('C03.E', 'operands and arguments evaluated exactly once, left to right', floor=5)
    chk.rule('C03.I', 'if() evaluates the condition once and only the selected branch (abstract evaluation, E6e)', floor=1)
    chk.rule('C03.B', 'expression built-ins alias the library functions; lookup order', floor=40)
    chk.assumptions += ['host + - * / % ** on int/float are the numeric operations; value_string / value_boolean / value_compare are checked by C13 / C11',
                        'models are schema-valid']
    decided = check_operator_table(chk)
    chk.floors['C03.T'] = 1000

    def dispatch_shape():
        ee = EvalExpr(chk.repo, 'C03.X')
        check_dispatch(chk, ee, None, coverage=False)
    chk.guard('C03.X', check_operator_coverage, chk, 'C03.X')
    (chk.advisory if decided else chk.guard)('C03.X', dispatch_shape)
    from .. import evalsim
    what = {'lazy': '&& and || return the left value or evaluate the right operand, decided by value_boolean(left)', 'lazy-if': 'if() evaluates the condition once and only the selected branch',
            'args': 'arguments evaluated once, left to right, before the call', 'lookup': 'variables: keywords, locals (membership), globals; functions: locals, globals, built-ins under the flag'}
    chk.guard('C03.S', evalsim.report, chk, {'lazy': 'C03.S', 'truth': 'C03.S'}, what)
    chk.guard('C03.I', evalsim.report, chk, {'lazy-if': 'C03.I'}, what)
    chk.guard('C03.E', evalsim.report, chk, {'args': 'C03.E'}, what)
    what['once'] = 'both operands of each of the 12 arithmetic / relational operators are evaluated exactly once, left before right, whatever the left value is (null, string, number, boolean)'
    chk.guard('C03.E', evalsim.report, chk, {'once': 'C03.E'}, what)
    # "comparisons use the total value order": the relational branches and value_compare itself (rules shared with C11)
    from . import c11
    for r in ('C11.P', 'C11.F', 'C11.C', 'C11.S'):
        chk.rule(r, 'shared with C11: ' + {'C11.P': 'type partition of value_compare', 'C11.F': 'three-way forms', 'C11.C': 'container comparison',
                                           'C11.S': 'relational operators are sign tests of value_compare'}[r])
    chk.guard('C11.P', c11.check_value_compare, chk)
    chk.guard('C11.S', c11.check_sign_tests, chk)
    # "+ ... stringifying the other": the stringifier on numbers (shared with C13)
    from . import c13
    chk.rule('C13.D', 'shared with C13: value_string on sample numbers never raises and prints a text denoting the number')
    chk.rule('C13.C', 'shared with C13: number clean-up')
    c13.report_value_string_sim(chk)
    # "+ ... offsets datetimes by milliseconds; - on two datetimes" and the stringified datetime operand: evaluation on concrete datetimes (shared with C16)
    from . import c16
    chk.rule('C16.E', 'shared with C16: datetime + number / datetime - datetime evaluated on concrete datetimes in several local zones')
    chk.rule('C16.I', 'shared with C16: value_string of a datetime is the ISO text of the instant, truncated to milliseconds')
    chk.rule('C16.N', 'shared with C16: datetime operands are normalised (aware -> local naive, date -> midnight)')
    chk.guard('C16.E', c16.check_datetime_sim, chk, None, ('normalise', 'format', 'arith'))
    chk.guard('C03.B', check_aliases, chk)
    chk.guard('C03.B', evalsim.report, chk, {'lookup': 'C03.B'}, what)
