"""C12 - one number type: int and float spellings are interchangeable.

Taint analysis "maybe-float number -> integer-only sink" over every registered library function and, through
resolved calls, the data.py / value.py functions they pass numbers to.
"""
import ast

from ..core import Unrecognised, call_name, const_str, norm, walk_no_nested, is_name
from ..cfg import CFG, forward
from ..lib import library_functions

EXPLANATION = (
    'C12.sink: forward may-taint analysis (flow-sensitive, per function CFG, inter-procedural by parameter binding '
    'through resolved callees) of values that can be a float-spelled number (library arguments whose argument model '
    'says type number or no type, elements of the raw argument list, results of float arithmetic) into operand '
    'positions CPython restricts to int (sequence index / slice bounds, range(), list.insert/pop, sequence '
    'repetition, chr(), int(text, base), str.find-family start/end, nested format-spec fields, calendar.monthrange, '
    'datetime/date constructors, JSON indent, round ndigits ...). A tainted value must pass through int()/len()/'
    'math.floor/ceil before such a position.  C12.chk: the integrality test of value_args_validate accepts both '
    'spellings and no library/value/data/runtime function discriminates int from float by type test.  C12.lit: the '
    'parser builds number literals with float(). Decides the structural clause "a float-spelled integral number '
    'reaches every index/count/size/radix/digit position coerced", not result equality for all inputs.')
ENUMERATION = ('one instance per integer-only sink position whose operand derives from a maybe-float value (OK when '
               'sanitised, VIOLATION when not), per type test on a script value, per numeric literal constructor; '
               'distinct by (rule, function, construct)')

SANITISERS = {'int', 'len', 'math.floor', 'math.ceil', 'ord', 'bool', 'str', 'repr', 'id', 'hash', 'isinstance', 'callable',
              'math.trunc', 'value_type', 'value_boolean', 'value_string', 'value_json', 'value_compare', 'value_is'}
PROPAGATORS = {'min', 'max', 'abs', 'sum', 'float', 'pow', 'math.fabs', 'math.copysign', 'math.fmod',
               'value_round_number', 'value_parse_number'}
SEQ_INDEX_METHODS = {'insert': [0], 'pop': [0]}
STR_RANGE_METHODS = {'find': [1, 2], 'rfind': [1, 2], 'index': [1, 2], 'rindex': [1, 2], 'count': [1, 2],
                     'startswith': [1, 2], 'endswith': [1, 2], 'ljust': [0], 'rjust': [0], 'center': [0], 'zfill': [0],
                     'split': [1], 'rsplit': [1], 'expandtabs': [0], 'splitlines': []}
INT_ONLY_CALLS = {  # callee -> positions (None = all positional)
    'range': None, 'chr': [0], 'bytes': [0], 'bytearray': [0], 'hex': [0], 'oct': [0], 'bin': [0],
    'calendar.monthrange': None, 'calendar.isleap': None, 'calendar.monthcalendar': None,
    'datetime.datetime': None, 'datetime.date': None, 'datetime.time': None,
    'math.factorial': [0], 'math.comb': None, 'math.perm': None, 'math.gcd': None, 'math.ldexp': [1],
    'itertools.islice': [1, 2, 3], 'random.randrange': None, 'random.randint': None,
}
INT_ONLY_SECOND = {'int': 1, 'round': 1}
INT_ONLY_KEYWORDS = {'indent', 'maxsplit', 'microsecond', 'year', 'month', 'day', 'hour', 'minute', 'second'}


class FuncTaint:
    """Flow-sensitive taint for one function.  tainted_vars: names tainted on entry; elem_vars: names whose
    *elements* are maybe-float values (raw argument lists)."""

    def __init__(self, engine, mod, func, tainted_vars, elem_vars, seq_types=None, label=None):
        self.engine = engine
        self.mod = mod
        self.func = func
        self.init = frozenset(tainted_vars) | frozenset('@' + v for v in elem_vars)
        self.label = label or func.name
        self.seq_types = dict(seq_types or {})   # var -> 'array'|'string'|'object'
        self.libfunc = None

    # ---- expression taint
    def tainted(self, e, st):
        if e is None:
            return False
        if isinstance(e, ast.Name):
            return e.id in st
        if isinstance(e, ast.Constant):
            return False
        if isinstance(e, ast.Call):
            cn = call_name(e)
            if cn in SANITISERS:
                return False
            if cn == 'round' and len(e.args) == 1:
                return False
            if cn in PROPAGATORS or cn == 'round':
                return any(self.tainted(a, st) for a in e.args) or cn in ('float', 'value_parse_number')
            return False
        if isinstance(e, ast.BinOp):
            if isinstance(e.op, ast.Div):
                return True
            if isinstance(e.op, (ast.Add, ast.Sub, ast.Mult, ast.Mod, ast.Pow, ast.FloorDiv)):
                return self.tainted(e.left, st) or self.tainted(e.right, st)
            return False
        if isinstance(e, ast.UnaryOp):
            return isinstance(e.op, (ast.USub, ast.UAdd)) and self.tainted(e.operand, st)
        if isinstance(e, ast.IfExp):
            return self.tainted(e.body, st) or self.tainted(e.orelse, st)
        if isinstance(e, ast.BoolOp):
            return any(self.tainted(v, st) for v in e.values)
        if isinstance(e, ast.NamedExpr):
            return self.tainted(e.value, st)
        if isinstance(e, ast.Subscript):
            return self.elems_tainted(e.value, st) and not isinstance(e.slice, ast.Slice)
        if isinstance(e, ast.Starred):
            return self.tainted(e.value, st)
        return False

    def elems_tainted(self, e, st):
        if isinstance(e, ast.Name):
            return ('@' + e.id) in st
        if isinstance(e, ast.Subscript) and isinstance(e.slice, ast.Slice):
            return self.elems_tainted(e.value, st)
        return False

    def is_sanitised_use(self, e, st):
        """expression is a sanitiser applied to something tainted (a non-trivial OK instance)"""
        if isinstance(e, ast.Call) and call_name(e) in ('int', 'math.floor', 'math.ceil', 'math.trunc') and len(e.args) == 1:
            return self.tainted(e.args[0], st)
        if isinstance(e, ast.BinOp):
            return self.is_sanitised_use(e.left, st) or self.is_sanitised_use(e.right, st)
        if isinstance(e, ast.IfExp):
            return self.is_sanitised_use(e.body, st) or self.is_sanitised_use(e.orelse, st)
        return False

    # ---- transfer
    def assign_targets(self, tgt, value_tainted, elems, st):
        st = set(st)
        for t in ([tgt] if not isinstance(tgt, (ast.Tuple, ast.List)) else tgt.elts):
            if isinstance(t, ast.Name):
                st.discard(t.id)
                st.discard('@' + t.id)
                if value_tainted:
                    st.add(t.id)
                if elems:
                    st.add('@' + t.id)
            elif isinstance(t, ast.Starred) and isinstance(t.value, ast.Name):
                st.discard(t.value.id)
                if elems or value_tainted:
                    st.add('@' + t.value.id)
        return frozenset(st)

    def transfer(self, node, st):
        s = node.ast
        if node.kind == 'stmt':
            if isinstance(s, ast.Assign):
                val = s.value
                lf = self.libfunc
                if lf is not None and isinstance(val, ast.Call) and val is lf.validate and lf.model is not None:
                    out = set(st)
                    tgt = s.targets[0]
                    if isinstance(tgt, (ast.Tuple, ast.List)):
                        for t, entry in zip(tgt.elts, lf.model):
                            if not isinstance(t, ast.Name):
                                continue
                            out.discard(t.id)
                            out.discard('@' + t.id)
                            ty = entry.get('type')
                            if entry.get('lastArgArray'):
                                out.add('@' + t.id)
                            elif ty == 'number' or ty is None:
                                out.add(t.id)
                            if ty in ('array', 'string', 'object'):
                                self.seq_types[t.id] = ty
                    return frozenset(out)
                for tgt in s.targets:
                    if isinstance(tgt, ast.Name):
                        if isinstance(val, (ast.Dict, ast.DictComp)) or (isinstance(val, ast.Call) and call_name(val) in ('dict', 'collections.OrderedDict')):
                            self.seq_types[tgt.id] = 'object'
                        elif isinstance(val, (ast.List, ast.ListComp)) or (isinstance(val, ast.Call) and call_name(val) in ('list', 'sorted')):
                            self.seq_types[tgt.id] = 'array'
                        elif isinstance(val, (ast.JoinedStr,)) or (isinstance(val, ast.Constant) and isinstance(val.value, str)):
                            self.seq_types[tgt.id] = 'string'
                        elif tgt.id in self.seq_types and not (isinstance(val, ast.Name) and self.seq_types.get(val.id) == self.seq_types[tgt.id]):
                            del self.seq_types[tgt.id]
                vt = self.tainted(val, st)
                el = self.elems_tainted(val, st) or (isinstance(val, (ast.List, ast.Tuple)) and any(self.tainted(x, st) for x in val.elts))
                if isinstance(val, ast.Call) and call_name(val) in ('list', 'tuple', 'sorted', 'reversed') and val.args:
                    el = el or self.elems_tainted(val.args[0], st)
                for tgt in s.targets:
                    if isinstance(tgt, (ast.Tuple, ast.List)) and isinstance(val, (ast.Tuple, ast.List)) and len(tgt.elts) == len(val.elts):
                        for t, v in zip(tgt.elts, val.elts):
                            st = self.assign_targets(t, self.tainted(v, st), self.elems_tainted(v, st), st)
                    elif isinstance(tgt, (ast.Tuple, ast.List)):
                        st = self.assign_targets(tgt, vt or el, False, st)
                    else:
                        st = self.assign_targets(tgt, vt, el, st)
                return st
            if isinstance(s, ast.AugAssign) and isinstance(s.target, ast.Name):
                t = s.target.id
                if s.target.id in st or self.tainted(s.value, st) or isinstance(s.op, ast.Div):
                    return frozenset(set(st) | {t})
                return st
            if isinstance(s, ast.AnnAssign) and s.value is not None:
                return self.assign_targets(s.target, self.tainted(s.value, st), self.elems_tainted(s.value, st), st)
        elif node.kind == 'iter':
            it = s.iter
            el = self.elems_tainted(it, st)
            if isinstance(it, ast.Call) and call_name(it) == 'enumerate' and it.args and isinstance(s.target, (ast.Tuple, ast.List)) \
                    and len(s.target.elts) == 2:
                st = self.assign_targets(s.target.elts[0], False, False, st)
                return self.assign_targets(s.target.elts[1], self.elems_tainted(it.args[0], st), False, st)
            return self.assign_targets(s.target, el, False, st)
        elif node.kind == 'handler':
            if s.name:
                return frozenset(set(st) - {s.name})
        return st

    def _is_repo_object(self, base):
        """the receiver is a local bound to an instance of a class defined in the repository (a helper object): its methods are not the host's list / str methods"""
        classes = set()
        for nm in ('library', 'value', 'runtime', 'data', 'parser', 'model', 'options'):
            try:
                classes |= set(getattr(self.engine.repo.module(nm), 'classes', {}))
            except Exception:
                pass
        if isinstance(base, ast.Call) and isinstance(base.func, ast.Name) and base.func.id in classes:
            return True
        if not isinstance(base, ast.Name):
            return False
        for n in walk_no_nested(self.func):
            if isinstance(n, ast.Assign) and any(isinstance(t, ast.Name) and t.id == base.id for t in n.targets) and isinstance(n.value, ast.Call) \
                    and isinstance(n.value.func, ast.Name) and n.value.func.id in classes:
                return True
        return False

    # ---- sinks
    def check_expr(self, e, st, out):
        """walk expression e (handling comprehension scopes) and report sink operands"""
        if e is None:
            return
        if isinstance(e, (ast.ListComp, ast.SetComp, ast.GeneratorExp, ast.DictComp)):
            inner = set(st)
            for gen in e.generators:
                self.check_expr(gen.iter, frozenset(inner), out)
                el = self.elems_tainted(gen.iter, frozenset(inner))
                inner = set(self.assign_targets(gen.target, el, False, frozenset(inner)))
                for cond in gen.ifs:
                    self.check_expr(cond, frozenset(inner), out)
            inner = frozenset(inner)
            if isinstance(e, ast.DictComp):
                self.check_expr(e.key, inner, out)
                self.check_expr(e.value, inner, out)
            else:
                self.check_expr(e.elt, inner, out)
            return
        if isinstance(e, ast.Lambda):
            inner = frozenset(set(st) - {a.arg for a in e.args.args})
            self.check_expr(e.body, inner, out)
            return
        # sinks at this node
        if isinstance(e, ast.Subscript):
            base_ty = self.seq_types.get(e.value.id) if isinstance(e.value, ast.Name) else None
            if isinstance(e.slice, ast.Slice):
                for part, what in ((e.slice.lower, 'slice start'), (e.slice.upper, 'slice end'), (e.slice.step, 'slice step')):
                    if part is not None:
                        out.append((part, what, e))
            elif base_ty != 'object':
                out.append((e.slice, 'sequence index', e))
        elif isinstance(e, ast.BinOp) and isinstance(e.op, ast.Mult):
            for seq, n in ((e.left, e.right), (e.right, e.left)):
                is_seq = isinstance(seq, (ast.List, ast.Tuple, ast.JoinedStr)) or (isinstance(seq, ast.Constant) and isinstance(seq.value, (str, bytes))) \
                    or (isinstance(seq, ast.Name) and self.seq_types.get(seq.id) in ('array', 'string'))
                if is_seq:
                    out.append((n, 'sequence repetition count', e))
        elif isinstance(e, ast.BinOp) and isinstance(e.op, (ast.LShift, ast.RShift, ast.BitAnd, ast.BitOr, ast.BitXor)):
            sym = {ast.LShift: '<<', ast.RShift: '>>', ast.BitAnd: '&', ast.BitOr: '|', ast.BitXor: '^'}[type(e.op)]
            out.append((e.left, f'left operand of {sym} (integers only: a float raises TypeError)', e))
            out.append((e.right, f'right operand of {sym} (integers only: a float raises TypeError)', e))
        elif isinstance(e, ast.UnaryOp) and isinstance(e.op, ast.Invert):
            out.append((e.operand, 'operand of ~ (integers only)', e))
        elif isinstance(e, ast.Call):
            cn = call_name(e)
            if cn in INT_ONLY_CALLS:
                pos = INT_ONLY_CALLS[cn]
                for i, a in enumerate(e.args):
                    if pos is None or i in pos:
                        out.append((a, f'argument {i} of {cn}()', e))
            if cn in INT_ONLY_SECOND and len(e.args) > INT_ONLY_SECOND[cn]:
                out.append((e.args[INT_ONLY_SECOND[cn]], f'argument {INT_ONLY_SECOND[cn]} of {cn}()', e))
            if isinstance(e.func, ast.Attribute) and not self._is_repo_object(e.func.value):
                m = e.func.attr
                base_ty = self.seq_types.get(e.func.value.id) if isinstance(e.func.value, ast.Name) else None
                if m in SEQ_INDEX_METHODS and base_ty != 'object':
                    for i in SEQ_INDEX_METHODS[m]:
                        if len(e.args) > i and not (m == 'pop' and len(e.args) == 2):
                            out.append((e.args[i], f'index argument of .{m}()', e))
                if m in STR_RANGE_METHODS:
                    for i in STR_RANGE_METHODS[m]:
                        if len(e.args) > i:
                            out.append((e.args[i], f'argument {i} of .{m}()', e))
            for kw in e.keywords:
                if kw.arg in INT_ONLY_KEYWORDS and not (cn or '').endswith('timedelta'):
                    out.append((kw.value, f'keyword {kw.arg}= of {cn}()', e))
            # inter-procedural binding
            self.engine.bind_call(self, e, st)
        elif isinstance(e, ast.FormattedValue) and e.format_spec is not None:
            for part in ast.walk(e.format_spec):
                if isinstance(part, ast.FormattedValue) and part is not e:
                    out.append((part.value, 'nested format-spec field', e))
        for child in ast.iter_child_nodes(e):
            if isinstance(child, ast.expr) or isinstance(child, (ast.keyword, ast.comprehension, ast.Slice)):
                if isinstance(child, ast.keyword):
                    self.check_expr(child.value, st, out)
                elif isinstance(child, ast.comprehension):
                    continue
                else:
                    self.check_expr(child, st, out)

    def run(self, chk):
        try:
            cfg = CFG(self.func)
        except Unrecognised as exc:
            chk.unrec('C12.sink', f'{self.label}: {exc.what}', self.mod.rel)
            return
        def refine(node, lab, st):
            # a name known to be None on this edge is not a float
            if node.kind == 'test' and isinstance(node.ast, ast.Compare) and len(node.ast.ops) == 1 and isinstance(node.ast.left, ast.Name) \
                    and isinstance(node.ast.comparators[0], ast.Constant) and node.ast.comparators[0].value is None:
                none_edge = 'true' if isinstance(node.ast.ops[0], (ast.Is, ast.Eq)) else 'false' if isinstance(node.ast.ops[0], (ast.IsNot, ast.NotEq)) else None
                if lab == none_edge:
                    return frozenset(x for x in st if x != node.ast.left.id and not (isinstance(x, tuple) and x and x[-1] == node.ast.left.id)) if isinstance(st, frozenset) else \
                        type(st)(x for x in st if x != node.ast.left.id)
            return st
        states = forward(cfg, self.init, self.transfer, lambda a, b: a | b, edge_transfer=refine)
        for node, st in states.items():
            exprs = []
            s = node.ast
            if node.kind == 'test':
                exprs = [s]
            elif node.kind == 'iter':
                exprs = [s.iter]
            elif node.kind == 'stmt':
                if isinstance(s, ast.stmt):
                    exprs = [c for c in ast.iter_child_nodes(s) if isinstance(c, ast.expr)]
                    if isinstance(s, (ast.With,)):
                        exprs = [i.context_expr for i in s.items]
            elif node.kind == 'handler':
                exprs = []
            sinks = []
            for ex in exprs:
                self.check_expr(ex, st, sinks)
            for operand, what, parent in sinks:
                where = f'{self.mod.name}.{self.label}: {norm(parent)} [{what}]'
                if self.tainted(operand, st):
                    chk.bad('C12.sink', self.mod, self.label, norm(parent),
                            f'a number that may be a float (script literals always are) reaches an integer-only position '
                            f'({what}: {norm(operand)}) without int(); the call fails for float spellings', node=parent,
                            detail={'operand': norm(operand), 'position': what})
                elif self.is_sanitised_use(operand, st):
                    chk.ok('C12.sink', where)
                else:
                    chk.ok('C12.sink', where, trivial=True)


class Engine:
    def __init__(self, chk):
        self.chk = chk
        self.repo = chk.repo
        self.pending = {}     # (modname, funcname) -> set(param names tainted), set(elem params)
        self.done = {}

    def bind_call(self, caller, call, st):
        fn = call.func
        if not isinstance(fn, ast.Name):
            return
        res = self.repo.resolve_function(caller.mod, fn.id)
        if res is None:
            return
        mod, func = res
        if mod.name == 'library' and func.name in self.registry_pynames:
            return
        params = [a.arg for a in func.args.args]
        t, el = set(), set()
        for i, a in enumerate(call.args):
            if i < len(params):
                if caller.tainted(a, st):
                    t.add(params[i])
                if caller.elems_tainted(a, st):
                    el.add(params[i])
        for kw in call.keywords:
            if kw.arg in params:
                if caller.tainted(kw.value, st):
                    t.add(kw.arg)
                if caller.elems_tainted(kw.value, st):
                    el.add(kw.arg)
        if not t and not el:
            return
        key = (mod.name, func.name)
        done = self.done.get(key, (frozenset(), frozenset()))
        pend = self.pending.get(key, (frozenset(), frozenset()))
        new = (done[0] | pend[0] | frozenset(t), done[1] | pend[1] | frozenset(el))
        if new != done:
            self.pending[key] = new

    def run(self):
        chk = self.chk
        libfuncs = library_functions(self.repo, 'C12.sink')
        self.registry_pynames = {lf.pyname for lf in libfuncs}
        n_num = 0
        for lf in libfuncs:
            tainted, elems = set(), set()
            if lf.args_param:
                elems.add(lf.args_param)
            ft = FuncTaint(self, lf.mod, lf.func, tainted, elems, label=lf.pyname)
            ft.libfunc = lf
            if lf.model:
                n_num += sum(1 for e in lf.model if e.get('type') == 'number')
            ft.run(chk)
        chk.extra['library_functions'] = len(libfuncs)
        chk.extra['number_parameters'] = n_num
        rounds = 0
        while self.pending and rounds < 50:
            rounds += 1
            key, (t, el) = self.pending.popitem()
            self.done[key] = (t, el)
            mod = self.repo.module(key[0])
            func = mod.funcs[key[1]]
            FuncTaint(self, mod, func, t, el, label=key[1]).run(chk)
        chk.extra['interprocedural_callees'] = sorted(f'{m}.{f}({", ".join(sorted(v[0] | {"*" + x for x in v[1]}))})' for (m, f), v in self.done.items())


def _type_tests(chk):
    """C12.chk: no int-vs-float discrimination by type test on script values."""
    for modname in ('library', 'value', 'data', 'runtime'):
        mod = chk.repo.module(modname)
        for fname, func in mod.funcs.items():
            tests = {}   # var text -> {'int': node, 'float': node}
            for node in walk_no_nested(func):
                if isinstance(node, ast.Call) and call_name(node) == 'isinstance' and len(node.args) == 2:
                    var = norm(node.args[0])
                    ty = node.args[1]
                    names = [norm(x) for x in (ty.elts if isinstance(ty, ast.Tuple) else [ty])]
                    for nm in names:
                        if nm in ('int', 'float'):
                            tests.setdefault(var, {}).setdefault(nm, node)
                elif isinstance(node, ast.Compare) and len(node.ops) == 1 and isinstance(node.ops[0], (ast.Is, ast.IsNot, ast.Eq, ast.NotEq)):
                    sides = [node.left, node.comparators[0]]
                    tcalls = [s for s in sides if isinstance(s, ast.Call) and call_name(s) == 'type' and len(s.args) == 1]
                    if tcalls:
                        others = [s for s in sides if s not in tcalls]
                        if len(tcalls) == 2 or (others and norm(others[0]) in ('int', 'float')):
                            chk.bad('C12.chk', mod, fname, norm(node),
                                    'exact type comparison on a script value distinguishes the int and float spellings of one number',
                                    node=node)
                elif isinstance(node, ast.Call) and isinstance(node.func, ast.Attribute) and node.func.attr in ('is_integer', 'as_integer_ratio', 'bit_length') \
                        and not node.args:
                    chk.bad('C12.chk', mod, fname, norm(node),
                            f'.{node.func.attr}() exists for only one of the two host spellings of a number (int/float) on every supported Python',
                            node=node)
            for var, seen in tests.items():
                if ('int' in seen) != ('float' in seen):
                    only = 'int' if 'int' in seen else 'float'
                    other = 'float' if only == 'int' else 'int'
                    # positively wrong: the one-spelling test decides validity (its branch, or the branch of its negation, is a constant / failure result)
                    node = seen[only]
                    cur, decides = node, False
                    while cur is not None and not isinstance(cur, (ast.If, ast.IfExp, ast.FunctionDef)):
                        cur = getattr(cur, '_parent', None)
                    if isinstance(cur, ast.If):
                        for blk in (cur.body, cur.orelse):
                            if len(blk) == 1 and ((isinstance(blk[0], ast.Return) and (blk[0].value is None or isinstance(blk[0].value, ast.Constant))) or isinstance(blk[0], ast.Raise)):
                                decides = True
                    elif isinstance(cur, ast.IfExp):
                        decides = isinstance(cur.body, ast.Constant) or isinstance(cur.orelse, ast.Constant)
                    if decides:
                        chk.bad('C12.chk', mod, fname, norm(seen[only]),
                                f'isinstance({var}, {only}) with no {other} counterpart decides whether the value is accepted: the {other} spelling of the same number is treated as invalid / as a constant',
                                node=seen[only])
                    else:
                        chk.unrec('C12.chk', f'{modname}.{fname}: isinstance({var}, {only}) without a {other} counterpart - whether both spellings give the same result on the two paths is not decided here', mod.rel)
                elif seen:
                    chk.ok('C12.chk', f'{modname}.{fname}: {var} tested for both int and float')


def _arith_spelling(chk):
    from .. import evalsim
    n, problems = evalsim.arithmetic_spelling(chk.repo, 'C12.spell')
    mod = chk.repo.module('runtime')
    sp = [m for k, m in problems if k == 'spelling']
    und = [m for k, m in problems if k == 'undecided']
    if sp:
        chk.bad('C12.spell', mod, 'evaluate_expression', sp[0][:120], f'abstract evaluation: {sp[0]} ({len(sp)} operand pairs deviate): the int and float spellings of a number must be interchangeable for every operator')
    elif und:
        chk.unrec('C12.spell', f'arithmetic spelling not decided for {len(und)} operand pairs, e.g. {und[0]}', mod.rel)
    else:
        chk.ok('C12.spell', f'{n} abstract evaluations: 14 operators x integral operand pairs from -7..7, each operand spelled as int and as float - the four results are equal', count=n)


def _integrality_sim(chk):
    """primary: value_args_validate evaluated (E6l) on a one-parameter model {type number, integer} and numbers spelled both ways -> True when decided OK"""
    from ..libsim import LibInterp
    from ..absint import ADict, AList
    mod = chk.repo.module('value')
    func = mod.func('value_args_validate', 'C12.chk')
    it = LibInterp(chk.repo, mod, 'C12.chk')
    cases = [(2, True), (2.0, True), (-3, True), (-3.0, True), (0, True), (0.0, True), (1e15, True), (2.5, False), (-0.5, False), (1e-9, False)]
    for constraint in ({}, {'gte': 0}, {'gte': -10, 'lte': 1e16}):
        for v, integral in cases:
            model = AList([ADict(dict({'name': 'x', 'type': 'number', 'integer': True}, **constraint))])
            got = it.run(func, [model, AList([v])])
            in_range = ('gte' not in constraint or v >= constraint['gte']) and ('lte' not in constraint or v <= constraint['lte'])
            want_ok = integral and in_range
            accepted = got[0] == 'value'
            if got[0] == 'raise' and got[1] != 'ValueArgsError':
                chk.bad('C12.chk', mod, 'value_args_validate', f'{v!r}: raises {got[1]}', f'validating the number {v!r} against an integer parameter raises {got[1]} instead of accepting / rejecting it', node=func)
                return False
            if accepted != want_ok:
                chk.bad('C12.chk', mod, 'value_args_validate', f'integer parameter {constraint or ""}: {v!r} is {"accepted" if accepted else "rejected"}',
                        f'value_args_validate {"accepts" if accepted else "rejects"} the number {v!r} for a parameter declared integer{" with " + str(constraint) if constraint else ""}: integrality is a '
                        f'property of the value, so 2 and 2.0 are both accepted and 2.5 is rejected, whatever the host type', node=func)
                return False
            if accepted and not (isinstance(got[1], AList) and len(got[1].l) == 1 and got[1].l[0] == v and type(got[1].l[0]) is type(v)):
                raise Unrecognised('C12.chk', f'value_args_validate returns {got[1]!r} for the argument {v!r}', mod.rel)
    chk.ok('C12.chk', f'value_args_validate evaluated on {len(cases) * 3} (integer parameter, number) cases: integral numbers are accepted in both spellings (2 and 2.0), fractional ones rejected, '
           f'range constraints applied to the value', count=len(cases) * 3)
    return True


def _number_function_spelling(chk):
    """C12.spell: the number-formatting / rounding / math functions evaluated with every integral argument spelled as host int and as float: same result"""
    from ..libsim import JsonInterp
    from ..absint import ADict, AList, Sym
    from ..lib import library_functions
    libfuncs = {f.name: f for f in library_functions(chk.repo, 'C12.spell')}
    lib = chk.repo.module('library')
    it = JsonInterp(chk.repo, lib, 'C12.spell')
    it.oracles.pop('value_compare', None)          # concrete numbers: the repository's own comparison
    big = [5, -7, 0, 1000, 123456789012345, 2 ** 53 + 2, 10 ** 15 + 1, -(2 ** 53) - 2, 999999999999999]
    cases = []
    for x in big:
        for d in (0, 1, 2, 3, 8, 9, 12, 17):          # digit counts on both sides of any table of common counts
            cases.append(('numberToFixed', [x, d]))
            cases.append(('mathRound', [x, d]))
        for fn in ('mathAbs', 'mathFloor', 'mathCeil', 'mathSign', 'stringNew', 'numberToFixed', 'mathRound'):
            cases.append((fn, [x]))
        cases.append(('mathMax', [x, 1]))
        cases.append(('mathMin', [x, 1]))
        cases.append(('numberToFixed', [x, 2, True]))
    n = 0
    for fn, args in cases:
        lf = libfuncs.get(fn)
        if lf is None:
            continue
        outs = []
        for spell in (int, float):
            a = [spell(v) if isinstance(v, int) and not isinstance(v, bool) else v for v in args]
            n += 1
            got = it.run(lf.func, [AList(a), ADict({})])
            if got[0] == 'value' and isinstance(got[1], Sym):
                raise Unrecognised('C12.spell', f'{fn}({a}) evaluates to the unmodelled value {got[1]!r}', lib.rel)
            outs.append(got if got[0] == 'value' else ('raise', got[1]))
        a_int, a_flt = outs
        same = a_int[0] == a_flt[0] and (a_int[0] == 'raise' or (a_int[1] == a_flt[1] and isinstance(a_int[1], bool) == isinstance(a_flt[1], bool)
                                                                 and isinstance(a_int[1], str) == isinstance(a_flt[1], str)))
        if not same:
            chk.bad('C12.spell', lib, lf.pyname, f'{fn}({", ".join(map(repr, args))})',
                    f'{fn}({", ".join(map(repr, args))}) gives {a_int[1]!r} when the numbers arrive as host ints and {a_flt[1]!r} when they arrive as floats: one number, two results', node=lf.func)
            return
    chk.ok('C12.spell', f'{n} evaluations: numberToFixed / mathRound / mathAbs / mathFloor / mathCeil / mathSign / mathMax / mathMin / stringNew on integral numbers up to 2**53 + 2, each '
           f'spelled as host int and as float, give the same result', count=n)


def _integrality(chk):
    mod = chk.repo.module('value')
    func = mod.func('value_args_validate', 'C12.chk')
    found = False
    for node in walk_no_nested(func):
        if isinstance(node, ast.BoolOp) and isinstance(node.op, ast.And) and len(node.values) == 2:
            a, b = node.values
            if isinstance(a, ast.Call) and isinstance(a.func, ast.Attribute) and a.func.attr == 'get' and a.args and const_str(a.args[0]) == 'integer':
                found = True
                ok = False
                if isinstance(b, ast.Compare) and len(b.ops) == 1 and isinstance(b.ops[0], ast.NotEq):
                    l, r = b.left, b.comparators[0]
                    for x, y in ((l, r), (r, l)):
                        if isinstance(x, ast.Call) and call_name(x) in ('int', 'math.floor', 'math.trunc', 'round') and len(x.args) == 1 and norm(x.args[0]) == norm(y):
                            ok = True
                if isinstance(b, ast.UnaryOp) and isinstance(b.op, ast.Not) and isinstance(b.operand, ast.Call) \
                        and isinstance(b.operand.func, ast.Attribute) and b.operand.func.attr == 'is_integer':
                    ok = False
                if ok:
                    chk.ok('C12.chk', f'value.value_args_validate: integrality test {norm(b)} accepts int and float spellings')
                else:
                    chk.bad('C12.chk', mod, 'value_args_validate', norm(b),
                            "the 'integer' constraint is not tested by value (int(v) != v): one spelling of an integral number is rejected",
                            node=b)
    if not found:
        raise Unrecognised('C12.chk', "the 'integer' constraint test (fn_arg.get('integer') and ...) was not found in value_args_validate", mod.rel)


def _closure_of(repo, modname, fname):
    mod = repo.module(modname)
    seen, todo = set(), [fname]
    while todo:
        f = todo.pop()
        if f in seen or f not in mod.funcs:
            continue
        seen.add(f)
        for n in walk_no_nested(mod.funcs[f]):
            if isinstance(n, ast.Name) and n.id in mod.funcs:
                todo.append(n.id)
            if isinstance(n, ast.Name) and n.id in mod.assigns:
                for v in mod.assigns[n.id]:
                    for x in ast.walk(v):
                        if isinstance(x, ast.Name) and x.id in mod.funcs:
                            todo.append(x.id)
    return seen


def _literals(chk):
    from .c02 import check_number_literals
    check_number_literals(chk, 'C12.lit')


def _sort_spelling(chk):
    """arraySort with a script comparison function: script functions return floats (a - b is 1.0, never 1); evaluated by abstract execution (E6l, shared with C11.U)"""
    from .. import libsim
    from ..lib import library_functions
    libfuncs = {lf.name: lf for lf in library_functions(chk.repo, 'C12.spell')}
    counts, problems = libsim.run_sort_functions(chk.repo, libfuncs, 'C12.spell')
    lib = chk.repo.module('library')
    mine = [p for p in problems if p[0] == 'arraySort']
    if mine:
        chk.bad('C12.spell', lib, libfuncs['arraySort'].pyname, f'arraySort [{mine[0][1]}]: {mine[0][2][:100]}', f'abstract execution of arraySort with a comparison function whose results are '
                f'floats / fractions: {mine[0][2]} ({len(mine)} of {counts.get("arraySort", 0)} runs deviate)', node=libfuncs['arraySort'].func)
    else:
        chk.ok('C12.spell', f'arraySort: {counts.get("arraySort", 0)} abstract calls incl. comparison functions returning float and fractional results: the stable sort under that comparison',
               count=counts.get('arraySort', 1))


def run(chk):
    chk.rule('C12.sink', 'maybe-float number must not reach an integer-only operand position uncoerced', floor=30)
    chk.rule('C12.chk', 'integrality test by value; no int-vs-float type discrimination on script values', floor=3)
    chk.rule('C12.lit', 'number literals are built with float()', floor=1)
    chk.assumptions += [
        'CPython: list/str subscripts, slice bounds, range(), chr(), int(text, base), str.find start, format precision, '
        'calendar.monthrange and datetime constructors raise TypeError for float operands; int()/len()/math.floor/ceil return int',
        'value_args_validate has already rejected non-integral values where the model says integer (checked by C12.chk)',
    ]
    eng = Engine(chk)
    chk.guard('C12.sink', eng.run)
    chk.rule('C12.spell', 'index-taking array / string functions give the same result for the int and the float spelling of every number (abstract execution, E6l)', floor=1000)
    from .c15 import check_bounds
    chk.guard('C12.spell', check_bounds, chk, 'C12.spell', ('spelling',))
    if chk.guard('C12.chk', _integrality_sim, chk):
        chk.advisory('C12.chk', _integrality, chk)
    else:
        chk.guard('C12.chk', _integrality, chk)
    f0, u0 = len(chk.findings), len(chk.unrecognised)
    chk.guard('C12.spell', _arith_spelling, chk)
    chk.guard('C12.spell', _number_function_spelling, chk)
    chk.guard('C12.spell', _sort_spelling, chk)
    chk.guard('C12.lit', _literals, chk)
    # int and float spellings print alike: value_string (C13.D/C) and value_json (C14.S/N) - shared rules
    from . import c13, c14
    chk.rule('C13.D', 'shared with C13: value_string prints int and integral float alike')
    chk.rule('C13.C', 'shared with C13: number clean-up')
    chk.rule('C14.S', 'shared with C14: substitutions on JSON text cannot alter strings')
    chk.rule('C14.N', 'shared with C14: integral floats are written without a fraction in every position of JSON text')
    sim = c13.report_value_string_sim(chk)
    if sim is not None and not sim[1]:
        name = chk.advisory('C13.D', c13.check_value_string, chk)
        if name:
            chk.advisory('C13.C', c13.check_cleanup, chk, name)
        # value_string and its helpers were evaluated on 5 and 5.0, 100 and 100.0 ...: a one-spelling type test inside them is decided by that evaluation
        vs_funcs = _closure_of(chk.repo, 'value', 'value_string')
        keep = []
        for u in chk.unrecognised:
            if u['rule'] == 'C12.chk' and 'without a' in u['what'] and any(u['what'].startswith(f'value.{f}:') for f in vs_funcs):
                chk.note(f"C12.chk: {u['what']} - decided by the evaluation of value_string on both spellings")
            else:
                keep.append(u)
        chk.unrecognised[:] = keep
    else:
        name = chk.guard('C13.D', c13.check_value_string, chk)
        if name:
            chk.guard('C13.C', c13.check_cleanup, chk, name)
    # the int / float spellings of indices, counts, sizes, indent, date components: the evaluations of the library against reference models run every number both ways
    from . import c15, c16, c19
    chk.rule('C19.A', 'shared with C19: dataAggregate on float and int measures (the reducers see the same numbers in both spellings)')
    chk.guard('C19.A', c19.check_aggregate, chk)
    chk.rule('C15.R', 'shared with C15: array / object / string functions evaluated with indices spelled as floats and as host ints against the reference models')
    chk.guard('C15.R', c15.check_reference_sim, chk)
    chk.rule('C16.M', 'shared with C16: datetimeNew evaluated with components spelled as host ints and as floats')
    chk.guard('C16.M', c16.check_datetime_new_sim, chk)

    chk.rule('C14.R', 'shared with C14: jsonStringify evaluated with the indent spelled as int and as float, integral floats inside values')
    chk._json_roundtrip_ok = bool(chk.guard('C14.R', c14.check_roundtrip_sim, chk))
    # the type-test read-back (isinstance(x, int) alone, type(x) is int, .is_integer()): a spelling of a test, not a behaviour.  Every consumer of numbers was evaluated above
    # with both spellings; the read-back is advisory when all of those decided positively, undecided when one of them was undecided, armed when one found a deviation
    decided = False if len(chk.findings) > f0 else (None if len(chk.unrecognised) > u0 else True)
    chk.readback(decided)('C12.chk', _type_tests, chk)
    aware = chk.guard('C14.S', c14.check_substitutions, chk)
    chk.guard('C14.N', c14.check_number_cleanup, chk, aware or [])
