"""C04 - scoping, calling convention and host globals."""
import ast

from ..core import Unrecognised, call_name, const_str, norm, walk_no_nested, if_chain, subscript_key
from ..rt import EvalExpr, statement_dispatch, helper_loop
from ..lib import library_functions

EXPLANATION = (
    'C04.W: the assignment statement is evaluated over the abstract cases locals_ in {None, empty dict, non-empty dict}: '
    'it must store into the call\'s locals whenever a locals frame exists (also when it is still empty) and into the '
    'globals object only at top level; all stores into the globals object in runtime.py are enumerated (library '
    'injection, top-level assignment, function statement). C04.F: _script_function binds parameters into a dict '
    'created inside the call and passes it as the locals of a new invocation; execute_script and include pass None. '
    'C04.L: variable reads test keywords, then membership in locals, then globals; function lookup tries locals, '
    'globals, then built-ins only under the builtins flag. C04.I: library injection is filtered by membership '
    '(name not in globals), so a caller-supplied name is never overwritten - even when its value is null. C04.R: the '
    'function statement stores unconditionally a callable bound to that statement\'s function object. C04.B: the '
    'parameter-binding decision table is read off _script_function over (argument present?, is the "..." position?): '
    'args[i] / args[i:] (fresh slice) / null / []; the "..." index is defined only when lastArgArray is truthy. '
    'C04.O: library functions invoke function-typed arguments with a freshly built argument list and the enclosing '
    'options unchanged. Decides these per-site scoping rules, not the product of programs and host configurations.')
ENUMERATION = ('abstract cases of the assignment target (3), stores into globals (all), lookup chains, binding table '
               '(4 contexts + 3 lastArgArray cases), callback call sites; distinct by (rule, construct)')


def truth_case(e, var, case):
    """evaluate a condition on `var` for case in none/empty/nonempty -> bool or None"""
    if isinstance(e, ast.Compare) and len(e.ops) == 1 and norm(e.left) == var and isinstance(e.comparators[0], ast.Constant) and e.comparators[0].value is None:
        if isinstance(e.ops[0], ast.IsNot):
            return case != 'none'
        if isinstance(e.ops[0], ast.Is):
            return case == 'none'
        if isinstance(e.ops[0], ast.NotEq):
            return case != 'none'
        if isinstance(e.ops[0], ast.Eq):
            return case == 'none'
    if isinstance(e, ast.Name) and e.id == var:
        return case == 'nonempty'
    if isinstance(e, ast.UnaryOp) and isinstance(e.op, ast.Not):
        r = truth_case(e.operand, var, case)
        return None if r is None else not r
    if isinstance(e, ast.Call) and call_name(e) == 'isinstance' and norm(e.args[0]) == var and norm(e.args[1]) == 'dict':
        return case != 'none'
    if isinstance(e, ast.Call) and call_name(e) == 'len' and norm(e.args[0]) == var:
        return None
    return None


def target_for(stmts, name_var, locals_var, case, globals_names):
    """which container receives `X[name_var] = ...` for the case: 'locals' / 'globals' / other text / None"""
    for s in stmts:
        if isinstance(s, ast.If):
            t = truth_case(s.test, locals_var, case)
            if t is None:
                # a test not about locals (e.g. `expr_name is not None`): look inside both
                r = target_for(s.body, name_var, locals_var, case, globals_names)
                if r is not None:
                    return r
                r = target_for(s.orelse, name_var, locals_var, case, globals_names)
                if r is not None:
                    return r
                continue
            r = target_for(s.body if t else s.orelse, name_var, locals_var, case, globals_names)
            if r is not None:
                return r
        elif isinstance(s, ast.Assign) and len(s.targets) == 1 and isinstance(s.targets[0], ast.Subscript) and norm(s.targets[0].slice) == name_var:
            base = s.targets[0].value
            return _container(base, locals_var, case, globals_names)
    return None


def _container(base, locals_var, case, globals_names):
    if isinstance(base, ast.Name):
        if base.id == locals_var:
            return 'locals'
        if base.id in globals_names:
            return 'globals'
        return base.id
    if isinstance(base, ast.BoolOp) and isinstance(base.op, ast.Or):
        for v in base.values[:-1]:
            c = _container(v, locals_var, case, globals_names)
            truthy = (case == 'nonempty') if c == 'locals' else True
            if truthy:
                return c
        return _container(base.values[-1], locals_var, case, globals_names)
    if isinstance(base, ast.IfExp):
        t = truth_case(base.test, locals_var, case)
        if t is None:
            return None
        return _container(base.body if t else base.orelse, locals_var, case, globals_names)
    return norm(base)


def globals_aliases(func):
    out = set()
    for n in walk_no_nested(func):
        if isinstance(n, ast.Assign) and len(n.targets) == 1 and isinstance(n.targets[0], ast.Name):
            t = norm(n.value)
            if t in ("options['globals']", "options.get('globals')") or t.startswith("options.get('globals')"):
                out.add(n.targets[0].id)
    return out


def check_assignment(chk):
    mod, func, loop, key_var, sections, chain = statement_dispatch(chk.repo, 'C04.W')
    stmts = sections.get('expr')
    if stmts is None:
        raise Unrecognised('C04.W', "no 'expr' branch in the statement dispatch", mod.rel)
    params = [a.arg for a in func.args.args]
    locals_var = params[2] if len(params) > 2 else 'locals_'
    galias = globals_aliases(func)
    name_var = None
    for s in stmts:
        if isinstance(s, ast.Assign) and isinstance(s.targets[0], ast.Name) and "'name'" in norm(s.value) and "['expr']" in norm(s.value):
            name_var = s.targets[0].id
    if name_var is None:
        raise Unrecognised('C04.W', 'the assignment target name variable was not found', mod.rel)
    want = {'none': 'globals', 'empty': 'locals', 'nonempty': 'locals'}
    desc = {'none': 'top level (locals_ is None)', 'empty': 'inside a function whose locals are still empty', 'nonempty': 'inside a function with locals'}
    for case in ('none', 'empty', 'nonempty'):
        got = target_for(stmts, name_var, locals_var, case, galias)
        if got is None:
            raise Unrecognised('C04.W', f'assignment store not understood for case {case}', mod.rel)
        if got == want[case]:
            chk.ok('C04.W', f'assignment, {desc[case]} -> stores into {got}')
        else:
            chk.bad('C04.W', mod, func.name, f'assignment {desc[case]} -> {got}',
                    f'an assignment executed {desc[case]} must write the {want[case]}; it writes the {got} '
                    f'(a function without parameters starts with an empty locals dict, which is falsy)', node=stmts[0])


def check_global_stores(chk):
    mod = chk.repo.module('runtime')
    n = 0
    for fname, func in mod.funcs.items():
        galias = globals_aliases(func) | {"options['globals']"}
        for node in walk_no_nested(func):
            tgt = None
            kind = None
            if isinstance(node, ast.Assign):
                for t in node.targets:
                    if isinstance(t, ast.Subscript) and (norm(t.value) in galias):
                        tgt, kind = t, 'store'
            elif isinstance(node, ast.Call) and isinstance(node.func, ast.Attribute) and norm(node.func.value) in galias \
                    and node.func.attr in ('update', 'setdefault', 'pop', 'clear', '__setitem__', 'popitem'):
                tgt, kind = node, node.func.attr
            elif isinstance(node, (ast.Delete, ast.AugAssign)):
                for t in (node.targets if isinstance(node, ast.Delete) else [node.target]):
                    if isinstance(t, ast.Subscript) and norm(t.value) in galias:
                        tgt, kind = t, 'delete/aug'
            if tgt is None:
                continue
            n += 1
            where = f'runtime.{fname}: {norm(node)[:90]}'
            if fname == 'execute_script' and kind in ('update', 'store', 'setdefault'):
                chk.ok('C04.W', where + ' (library injection)')
            elif fname == '_execute_script_helper' and kind == 'store':
                chk.ok('C04.W', where + ' (top-level assignment / function statement)')
            else:
                chk.bad('C04.W', mod, fname, norm(node)[:120], 'an unexpected write into the globals object (only library injection, top-level assignments and function statements write globals)', node=node)
    if n < 3:
        raise Unrecognised('C04.W', f'only {n} stores into the globals object found', mod.rel)


def check_frames(chk):
    mod = chk.repo.module('runtime')
    sf = mod.func('_script_function', 'C04.F')
    calls = [n for n in walk_no_nested(sf) if isinstance(n, ast.Call) and call_name(n) == '_execute_script_helper']
    if len(calls) != 1 or len(calls[0].args) < 3:
        raise Unrecognised('C04.F', '_script_function does not call _execute_script_helper(statements, options, locals) once', mod.rel)
    call = calls[0]
    loc = call.args[2]
    defs = [n for n in walk_no_nested(sf) if isinstance(n, ast.Assign) and len(n.targets) == 1 and norm(n.targets[0]) == norm(loc)]
    fresh = len(defs) == 1 and (isinstance(defs[0].value, ast.Dict) and not defs[0].value.keys or (isinstance(defs[0].value, ast.Call) and call_name(defs[0].value) == 'dict' and not defs[0].value.args)) \
        and defs[0] in sf.body
    if isinstance(loc, ast.Name) and fresh:
        chk.ok('C04.F', f'_script_function: locals frame {loc.id} is a dict created inside the call and passed to a new invocation')
    else:
        chk.bad('C04.F', mod, '_script_function', norm(call), 'a script function call must run with a locals dict created for that call (not a default argument, module state or the model)', node=call)
    if norm(call.args[0]) != f"{sf.args.args[0].arg}['statements']":
        chk.bad('C04.F', mod, '_script_function', norm(call.args[0]), "a script function must execute its own statement list (function['statements'])", node=call)
    elif norm(call.args[1]) != sf.args.args[2].arg:
        chk.bad('C04.F', mod, '_script_function', norm(call.args[1]), 'a script function must run under the options object passed by its caller', node=call)
    else:
        chk.ok('C04.F', "_script_function runs function['statements'] under the caller's options")
    for fname in ('execute_script', '_execute_script_helper'):
        f = mod.func(fname, 'C04.F')
        for n in walk_no_nested(f):
            if isinstance(n, ast.Call) and call_name(n) == '_execute_script_helper' and len(n.args) >= 3:
                if isinstance(n.args[2], ast.Constant) and n.args[2].value is None:
                    chk.ok('C04.F', f'{fname}: {norm(n)[:70]} runs in global scope (locals None)')
                else:
                    chk.bad('C04.F', mod, fname, norm(n)[:100], 'top-level scripts and included scripts must run in global scope (locals None)', node=n)


def check_variable_lookup(chk, ee):
    stmts = ee.sections.get('variable')
    if stmts is None:
        raise Unrecognised('C04.L', "no 'variable' section", ee.mod.rel)
    locals_var = ee.params[2] if len(ee.params) > 2 else 'locals_'
    # flatten returns in order with their guard
    order = []

    def rec(ss, guards):
        for s in ss:
            if isinstance(s, ast.If):
                rec(s.body, guards + [norm(s.test)])
                rec(s.orelse, guards + ['not (' + norm(s.test) + ')'])
            elif isinstance(s, ast.Return):
                order.append((guards, s))
    rec(stmts, [])
    kw = [r for g, r in order if isinstance(r.value, ast.Constant) and any("== 'null'" in x or "== 'true'" in x or "== 'false'" in x for x in g)]
    loc = [(g, r) for g, r in order if f'{locals_var}[' in norm(r.value)]
    glob = [(g, r) for g, r in order if 'globals_' in norm(r.value)]
    if len(kw) == 3 and order.index(next(x for x in order if x[1] is kw[-1])) < order.index(loc[0]) if loc else False:
        chk.ok('C04.L', 'variable read: keywords null/true/false first')
    else:
        chk.bad('C04.L', ee.mod, 'evaluate_expression', 'keyword order', 'the keywords null/true/false must be recognised before any variable lookup', node=stmts[0])
    if len(loc) == 1 and len(glob) >= 1:
        g = ' and '.join(loc[0][0])
        member = f"in {locals_var}" in g and f'{locals_var} is not None' in g
        if member and order.index(loc[0]) < order.index(glob[0]):
            chk.ok('C04.L', 'variable read: locals (by membership) before globals')
        else:
            chk.bad('C04.L', ee.mod, 'evaluate_expression', g[:120],
                    'a variable must be read from the call\'s locals when the name is a member of locals (even when its value is null), and from globals only otherwise', node=loc[0][1])
    else:
        chk.bad('C04.L', ee.mod, 'evaluate_expression', f'{len(loc)} local reads, {len(glob)} global reads', 'variable lookup must be: locals (membership), then globals', node=stmts[0])


def check_injection(chk):
    mod = chk.repo.module('runtime')
    func = mod.func('execute_script', 'C04.I')
    galias = globals_aliases(func)
    found = False
    for n in walk_no_nested(func):
        if isinstance(n, (ast.GeneratorExp, ast.ListComp, ast.DictComp)) and any('SCRIPT_FUNCTIONS' in norm(g.iter) for g in n.generators):
            found = True
            gen = n.generators[0]
            conds = [norm(c) for c in gen.ifs]
            tgt = norm(gen.target)
            names = {tgt + '[0]'} if not isinstance(gen.target, ast.Tuple) else {norm(gen.target.elts[0])}
            ok = any(any(c == f'{nm} not in {g}' for nm in names for g in galias) for c in conds)
            if ok and len(conds) == 1:
                chk.ok('C04.I', f'library injection filtered by membership: {conds[0]}')
            else:
                chk.bad('C04.I', mod, 'execute_script', f'injection filter {conds}',
                        'library functions must be added only for names that are not members of the caller-supplied globals (a membership test; testing the value, e.g. '
                        '.get(name) is None, overwrites a name the caller bound to null)', node=n)
        if isinstance(n, ast.For) and 'SCRIPT_FUNCTIONS' in norm(n.iter):
            found = True
            tgt = n.target
            name = norm(tgt.elts[0]) if isinstance(tgt, ast.Tuple) else None
            ok = False
            for s in n.body:
                if isinstance(s, ast.If) and any(norm(s.test) == f'{name} not in {g}' for g in galias):
                    ok = True
                if isinstance(s, ast.Expr) and isinstance(s.value, ast.Call) and isinstance(s.value.func, ast.Attribute) and s.value.func.attr == 'setdefault':
                    ok = True
            if ok:
                chk.ok('C04.I', 'library injection loop guarded by membership / setdefault')
            else:
                chk.bad('C04.I', mod, 'execute_script', norm(n.body[0])[:120],
                        'library functions must be added only for names that are not members of the caller-supplied globals (membership test, not a test of the value)', node=n)
        if isinstance(n, ast.Call) and isinstance(n.func, ast.Attribute) and n.func.attr == 'update' and norm(n.func.value) in galias and n.args \
                and norm(n.args[0]) == 'SCRIPT_FUNCTIONS':
            found = True
            chk.bad('C04.I', mod, 'execute_script', norm(n), 'the library overwrites caller-supplied globals of the same name', node=n)
    if not found:
        raise Unrecognised('C04.I', 'library injection (iteration over SCRIPT_FUNCTIONS) not found in execute_script', mod.rel)


def check_function_statement(chk):
    mod, func, loop, key_var, sections, chain = statement_dispatch(chk.repo, 'C04.R')
    stmts = sections.get('function')
    if stmts is None:
        raise Unrecognised('C04.R', "no 'function' branch in the statement dispatch", mod.rel)
    galias = globals_aliases(func)
    stores = [s for s in stmts if isinstance(s, ast.Assign) and isinstance(s.targets[0], ast.Subscript)]
    if len(stmts) == 1 and len(stores) == 1:
        s = stores[0]
        base = norm(s.targets[0].value)
        key = norm(s.targets[0].slice)
        val = s.value
        stmt_var = key.split("['function']")[0] if "['function']" in key else None
        good_val = isinstance(val, ast.Call) and (call_name(val) or '').endswith('partial') and len(val.args) == 2 and norm(val.args[0]) == '_script_function' \
            and norm(val.args[1]) == f"{stmt_var}['function']"
        if base in galias and key == f"{stmt_var}['function']['name']" and good_val:
            chk.ok('C04.R', f'function statement: unconditional {norm(s)[:90]}')
        else:
            chk.bad('C04.R', mod, func.name, norm(s)[:140],
                    'a function statement must bind, in the globals object and under the function\'s own name, a callable closed over that statement\'s function object', node=s)
    else:
        cond = [s for s in stmts if isinstance(s, ast.If)]
        chk.bad('C04.R', mod, func.name, norm(stmts[0])[:120] if stmts else 'empty',
                'the function statement must store unconditionally (a script-defined function replaces a library function or earlier definition of the same name)'
                if cond else 'the function statement branch is not a single store into globals', node=stmts[0] if stmts else None)


def check_binding(chk):
    mod = chk.repo.module('runtime')
    sf = mod.func('_script_function', 'C04.B')
    params = [a.arg for a in sf.args.args]
    fn_var, args_var = params[0], params[1]
    # zip idiom
    for n in walk_no_nested(sf):
        if isinstance(n, ast.Call) and call_name(n) == 'zip' and any(norm(a) == args_var for a in n.args):
            chk.bad('C04.B', mod, '_script_function', norm(getattr(n, '_parent', n))[:120],
                    'zip() binds only as many parameters as there are arguments: missing parameters are left unbound (and resolve to a global of the same name) '
                    'instead of being null', node=n)
            return
    loops = [n for n in walk_no_nested(sf) if isinstance(n, ast.For)]
    if len(loops) != 1:
        raise Unrecognised('C04.B', '_script_function: expected one loop over the declared parameters', mod.rel)
    loop = loops[0]
    defs = {}
    for n in walk_no_nested(sf):
        if isinstance(n, ast.Assign) and len(n.targets) == 1 and isinstance(n.targets[0], ast.Name):
            defs.setdefault(n.targets[0].id, []).append(n.value)
    ix = loop.target.id if isinstance(loop.target, ast.Name) else None
    it = norm(loop.iter)
    names_var = next((k for k, v in defs.items() if any(norm(x) in (f"{fn_var}.get('args')", f"{fn_var}['args']") for x in v)), None)
    nlen = next((k for k, v in defs.items() if any(norm(x) == f'len({names_var})' for x in v)), None)
    alen = next((k for k, v in defs.items() if any(norm(x) == f'len({args_var})' for x in v)), None)
    if it not in (f'range({nlen})', f'range(len({names_var}))') or ix is None:
        raise Unrecognised('C04.B', f'parameter loop does not range over the declared parameters: {it}', mod.rel)
    chk.ok('C04.B', 'binding loop ranges over the declared parameters only (surplus arguments ignored)')
    # the "..." index
    last_var = None
    for k, v in defs.items():
        if any('lastArgArray' in norm(x) for x in v):
            last_var = k
    if last_var is None:
        raise Unrecognised('C04.B', 'definition of the "..." parameter index not found', mod.rel)
    ldef = defs[last_var][0]
    lgood = None
    if isinstance(ldef, ast.IfExp):
        t = norm(ldef.test)
        t_ok = t in (f"{fn_var}.get('lastArgArray')", f"{fn_var}.get('lastArgArray', False)", f"{fn_var}.get('lastArgArray', None)",
                     f"'lastArgArray' in {fn_var} and {fn_var}['lastArgArray']")
        b_ok = norm(ldef.body) in (f'{nlen} - 1', f'len({names_var}) - 1')
        o_ok = isinstance(ldef.orelse, ast.Constant) and ldef.orelse.value is None or norm(ldef.orelse) == '-1'
        lgood = t_ok and b_ok and o_ok
    elif isinstance(ldef, ast.BoolOp):
        lgood = False
    if lgood:
        chk.ok('C04.B', f'"..." index = {norm(ldef)} (defined only when lastArgArray is truthy)')
    elif lgood is False:
        chk.bad('C04.B', mod, '_script_function', norm(ldef),
                'the index of the "..." parameter must be n-1 when lastArgArray is truthy and a non-index (None) otherwise; with `x and (n - 1)` an explicit '
                'lastArgArray=False yields False, which equals index 0, so the first parameter collects all arguments', node=ldef)
    else:
        raise Unrecognised('C04.B', f'"..." index definition not understood: {norm(ldef)}', mod.rel)

    def cond(e, present, last):
        t = norm(e)
        if t == f'{ix} < {alen}' or t == f'{ix} < len({args_var})' or t == f'{alen} > {ix}':
            return present
        if t == f'{ix} >= {alen}' or t == f'{ix} >= len({args_var})':
            return not present
        if t in (f'{ix} != {last_var}', f'{last_var} != {ix}'):
            return not last
        if t in (f'{ix} == {last_var}', f'{last_var} == {ix}'):
            return last
        if isinstance(e, ast.UnaryOp) and isinstance(e.op, ast.Not):
            r = cond(e.operand, present, last)
            return None if r is None else not r
        return None

    def value_kind(e, present, last):
        if isinstance(e, ast.IfExp):
            c = cond(e.test, present, last)
            if c is None:
                a, b = value_kind(e.body, present, last), value_kind(e.orelse, present, last)
                return a if a == b else f'{a} or {b} (depending on {norm(e.test)})'
            return value_kind(e.body if c else e.orelse, present, last)
        t = norm(e)
        if t == f'{args_var}[{ix}]':
            return 'args[i]'
        if t == f'{args_var}[{ix}:]':
            return 'args[i:]'
        if isinstance(e, ast.Constant) and e.value is None:
            return 'null'
        if isinstance(e, ast.List) and not e.elts:
            return '[]'
        if t == args_var:
            return 'the argument list itself (aliased, not a fresh slice)'
        if t == f'list({args_var}[{ix}:])':
            return 'args[i:]'
        return t

    def run_body(stmts, present, last):
        for s in stmts:
            if isinstance(s, ast.If):
                c = cond(s.test, present, last)
                if c is None:
                    return None
                r = run_body(s.body if c else s.orelse, present, last)
                if r is not None:
                    return r
            elif isinstance(s, ast.Assign) and isinstance(s.targets[0], ast.Subscript):
                return value_kind(s.value, present, last)
        return 'unbound'
    want = {(True, False): 'args[i]', (True, True): 'args[i:]', (False, False): 'null', (False, True): '[]'}
    for (present, last), w in want.items():
        got = run_body(loop.body, present, last)
        ctx = ('argument present' if present else 'argument missing') + ', ' + ('the "..." parameter' if last else 'ordinary parameter')
        if got is None:
            raise Unrecognised('C04.B', f'binding loop not understood for: {ctx}', mod.rel)
        if got == w:
            chk.ok('C04.B', f'{ctx} -> {got}')
        else:
            chk.bad('C04.B', mod, '_script_function', f'{ctx} -> {got}', f'with {ctx} the parameter must be bound to {w}; it is bound to {got}', node=loop)


def check_callbacks(chk):
    from .c09 import check_callbacks as cb
    cb(chk)
    for inst in chk.instances:
        if inst['rule'] == 'C09.I':
            inst['rule'] = 'C04.O'
    for f in chk.findings:
        if f.rule == 'C09.I':
            f.rule = 'C04.O'
    # fresh argument list at every callback call in library.py
    for lf in library_functions(chk.repo, 'C04.O'):
        fn_vars = set()
        if lf.model and lf.targets:
            for t, e in zip(lf.targets, lf.model):
                if t and (e.get('type') == 'function' or e.get('type') is None):
                    fn_vars.add(t)
        for node in ast.walk(lf.func):
            if isinstance(node, ast.Call) and isinstance(node.func, ast.Name) and node.func.id in fn_vars and len(node.args) == 2:
                a = node.args[0]
                if isinstance(a, (ast.List, ast.ListComp)) or (isinstance(a, ast.Call) and call_name(a) == 'list'):
                    chk.ok('C04.O', f'{lf.name}: callback argument list {norm(a)[:50]} is built for the call')
                else:
                    chk.bad('C04.O', lf.mod, lf.pyname, norm(node)[:100],
                            'a callback is invoked with an argument list that is not built for this call (a stored / shared list): the callee\'s argument validation and '
                            '"..." binding mutate or alias it, so later calls observe earlier ones', node=node)


def run(chk):
    chk.rule('C04.W', 'assignment target by scope (3 abstract cases); enumerated writers of the globals object', floor=6)
    chk.rule('C04.F', 'fresh locals frame per call; top level and includes run with locals None', floor=4)
    chk.rule('C04.L', 'lookup order: keywords, locals (membership), globals; functions: locals, globals, built-ins under flag', floor=3)
    chk.rule('C04.I', 'library injection never overwrites a caller-supplied name (membership filter)', floor=1)
    chk.rule('C04.R', 'function statement stores unconditionally a callable bound to its own function object', floor=1)
    chk.rule('C04.B', 'parameter binding decision table', floor=6)
    chk.rule('C04.O', 'library callbacks: fresh argument list, enclosing options unchanged', floor=8)
    chk.assumptions += ['models are schema-valid; host functions follow the (args, options) calling convention']
    ee = EvalExpr(chk.repo, 'C04.L')
    chk.guard('C04.W', check_assignment, chk)
    chk.guard('C04.W', check_global_stores, chk)
    chk.guard('C04.F', check_frames, chk)
    chk.guard('C04.L', check_variable_lookup, chk, ee)
    from .c03 import check_lookup
    before = len(chk.instances)
    chk.guard('C04.L', check_lookup, chk, ee)
    for inst in chk.instances[before:]:
        if inst['rule'] == 'C03.B':
            inst['rule'] = 'C04.L'
    for f in chk.findings:
        if f.rule == 'C03.B':
            f.rule = 'C04.L'
    chk.guard('C04.I', check_injection, chk)
    chk.guard('C04.R', check_function_statement, chk)
    chk.guard('C04.B', check_binding, chk)
    chk.guard('C04.O', check_callbacks, chk)
