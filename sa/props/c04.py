"""C04 - scoping, calling convention and host globals."""
import ast

from ..core import Unrecognised, call_name, const_str, norm, walk_no_nested, if_chain, subscript_key
from ..rt import EvalExpr, statement_dispatch, helper_loop
from ..lib import library_functions

EXPLANATION = (
    'C04.W: the assignment statement is evaluated over the abstract cases locals_ in {None, empty dict, non-empty dict}: '
    'it must store into the call\'s locals whenever a locals frame exists (also when it is still empty) and into the '
    'globals object only at top level; all stores into the globals object in runtime.py are enumerated (library '
    'injection, top-level assignment, function statement). C04.F: _script_function binds parameters into a dict '
    'created inside the call and passes it as the locals of a new invocation; execute_script and include pass None. '
    'C04.L: variable reads test keywords, then membership in locals, then globals; function lookup tries locals, '
    'globals, then built-ins only under the builtins flag. C04.I: library injection is filtered by membership '
    '(name not in globals), so a caller-supplied name is never overwritten - even when its value is null. C04.R: the '
    'function statement stores unconditionally a callable bound to that statement\'s function object. C04.B: the '
    'parameter-binding decision table is read off _script_function over (argument present?, is the "..." position?): '
    'args[i] / args[i:] (fresh slice) / null / []; the "..." index is defined only when lastArgArray is truthy. '
    'C04.O: library functions invoke function-typed arguments with a freshly built argument list and the enclosing '
    'options unchanged. Decides these per-site scoping rules, not the product of programs and host configurations.')
ENUMERATION = ('abstract cases of the assignment target (3), stores into globals (all), lookup chains, binding table '
               '(4 contexts + 3 lastArgArray cases), callback call sites; distinct by (rule, construct)')


def truth_case(e, var, case):
    """evaluate a condition on `var` for case in none/empty/nonempty -> bool or None"""
    if isinstance(e, ast.Compare) and len(e.ops) == 1 and norm(e.left) == var and isinstance(e.comparators[0], ast.Constant) and e.comparators[0].value is None:
        if isinstance(e.ops[0], ast.IsNot):
            return case != 'none'
        if isinstance(e.ops[0], ast.Is):
            return case == 'none'
        if isinstance(e.ops[0], ast.NotEq):
            return case != 'none'
        if isinstance(e.ops[0], ast.Eq):
            return case == 'none'
    if isinstance(e, ast.Name) and e.id == var:
        return case == 'nonempty'
    if isinstance(e, ast.UnaryOp) and isinstance(e.op, ast.Not):
        r = truth_case(e.operand, var, case)
        return None if r is None else not r
    if isinstance(e, ast.Call) and call_name(e) == 'isinstance' and norm(e.args[0]) == var and norm(e.args[1]) == 'dict':
        return case != 'none'
    if isinstance(e, ast.Call) and call_name(e) == 'len' and norm(e.args[0]) == var:
        return None
    return None


def target_for(stmts, name_var, locals_var, case, globals_names):
    """which container receives `X[name_var] = ...` for the case: 'locals' / 'globals' / other text / None"""
    for s in stmts:
        if isinstance(s, ast.If):
            t = truth_case(s.test, locals_var, case)
            if t is None:
                # a test not about locals (e.g. `expr_name is not None`): look inside both
                r = target_for(s.body, name_var, locals_var, case, globals_names)
                if r is not None:
                    return r
                r = target_for(s.orelse, name_var, locals_var, case, globals_names)
                if r is not None:
                    return r
                continue
            r = target_for(s.body if t else s.orelse, name_var, locals_var, case, globals_names)
            if r is not None:
                return r
        elif isinstance(s, ast.Assign) and len(s.targets) == 1 and isinstance(s.targets[0], ast.Subscript) and norm(s.targets[0].slice) == name_var:
            base = s.targets[0].value
            return _container(base, locals_var, case, globals_names)
    return None


def _container(base, locals_var, case, globals_names):
    if isinstance(base, ast.Name):
        if base.id == locals_var:
            return 'locals'
        if base.id in globals_names:
            return 'globals'
        return base.id
    if isinstance(base, ast.BoolOp) and isinstance(base.op, ast.Or):
        for v in base.values[:-1]:
            c = _container(v, locals_var, case, globals_names)
            truthy = (case == 'nonempty') if c == 'locals' else True
            if truthy:
                return c
        return _container(base.values[-1], locals_var, case, globals_names)
    if isinstance(base, ast.IfExp):
        t = truth_case(base.test, locals_var, case)
        if t is None:
            return None
        return _container(base.body if t else base.orelse, locals_var, case, globals_names)
    return norm(base)


def globals_aliases(func):
    out = set()
    for n in walk_no_nested(func):
        if isinstance(n, ast.Assign) and len(n.targets) == 1 and isinstance(n.targets[0], ast.Name):
            t = norm(n.value)
            if t in ("options['globals']", "options.get('globals')") or t.startswith("options.get('globals')"):
                out.add(n.targets[0].id)
    return out


def check_assignment(chk):
    """C04.W by abstract execution: an assignment statement executed at top level, in a function whose locals are still empty,
    and in a function with locals"""
    from .. import stepsim
    from ..absint import Sym, ADict, RaiseSig
    mod, func, loop = helper_loop(chk.repo, 'C04.W')
    it = stepsim.StepInterp(chk.repo, mod, 'C04.W')
    it.schedule = [True]
    desc = {'none': 'top level (locals_ is None)', 'empty': 'inside a function whose locals are still empty', 'nonempty': 'inside a function with locals'}
    for case in ('none', 'empty', 'nonempty'):
        model = [{'expr': {'name': 'x', 'expr': Sym('e', 0)}}, {'expr': {'name': 'y', 'expr': Sym('e', 1)}}]
        locals_ = it.prepare('global' if case == 'none' else 'function', 50, {'y': Sym('global-y')})
        if case == 'nonempty':
            locals_.d['p'] = Sym('param')
        try:
            it.call_function(func, [stepsim.build(model), it.options, locals_], func)
        except RaiseSig as sig:
            chk.bad('C04.W', mod, func.name, f'assignment {desc[case]}: raises {sig.cls}', f'an assignment statement executed {desc[case]} raises {sig.cls}{sig.args_!r}')
            continue
        g = it.globals_obj.d
        if case == 'none':
            good = isinstance(g.get('x'), Sym) and g['x'].kind == 'value' and isinstance(g.get('y'), Sym) and g['y'].kind == 'value'
            where = 'the globals object'
        else:
            good = 'x' not in g and g.get('y') == Sym('global-y') and isinstance(locals_.d.get('x'), Sym) and isinstance(locals_.d.get('y'), Sym) and locals_.d['y'].kind == 'value'
            where = "the call's locals (also when a global of the same name exists)"
        if good:
            chk.ok('C04.W', f'assignment {desc[case]} stores into {where}')
        else:
            chk.bad('C04.W', mod, func.name, f'assignment {desc[case]}: globals={stepsim.reify(it.globals_obj)!r} locals={stepsim.reify(locals_) if locals_ is not None else None!r}',
                    f'an assignment executed {desc[case]} must store into {where}; it leaves globals={stepsim.reify(it.globals_obj)!r}, locals={stepsim.reify(locals_) if locals_ is not None else None!r}')


def check_global_stores(chk):
    mod = chk.repo.module('runtime')
    n = 0
    for fname, func in mod.funcs.items():
        galias = globals_aliases(func) | {"options['globals']"}
        for node in walk_no_nested(func):
            tgt = None
            kind = None
            if isinstance(node, ast.Assign):
                for t in node.targets:
                    if isinstance(t, ast.Subscript) and (norm(t.value) in galias):
                        tgt, kind = t, 'store'
            elif isinstance(node, ast.Call) and isinstance(node.func, ast.Attribute) and norm(node.func.value) in galias \
                    and node.func.attr in ('update', 'setdefault', 'pop', 'clear', '__setitem__', 'popitem'):
                tgt, kind = node, node.func.attr
            elif isinstance(node, (ast.Delete, ast.AugAssign)):
                for t in (node.targets if isinstance(node, ast.Delete) else [node.target]):
                    if isinstance(t, ast.Subscript) and norm(t.value) in galias:
                        tgt, kind = t, 'delete/aug'
            if tgt is None:
                continue
            n += 1
            where = f'runtime.{fname}: {norm(node)[:90]}'
            if fname == 'execute_script' and kind in ('update', 'store', 'setdefault'):
                chk.ok('C04.W', where + ' (library injection)')
            elif fname == '_execute_script_helper' and kind == 'store':
                chk.ok('C04.W', where + ' (top-level assignment / function statement)')
            else:
                chk.bad('C04.W', mod, fname, norm(node)[:120], 'an unexpected write into the globals object (only library injection, top-level assignments and function statements write globals)', node=node)
    if n < 2:
        raise Unrecognised('C04.W', f'only {n} stores into the globals object found', mod.rel)


def check_frames(chk):
    mod = chk.repo.module('runtime')
    check_calls_sim(chk)
    for fname in ('execute_script', '_execute_script_helper'):
        f = mod.func(fname, 'C04.F')
        for n in walk_no_nested(f):
            if isinstance(n, ast.Call) and call_name(n) == '_execute_script_helper' and len(n.args) >= 3:
                if isinstance(n.args[2], ast.Constant) and n.args[2].value is None:
                    chk.ok('C04.F', f'{fname}: {norm(n)[:70]} runs in global scope (locals None)')
                else:
                    chk.bad('C04.F', mod, fname, norm(n)[:100], 'top-level scripts and included scripts must run in global scope (locals None)', node=n)


def check_variable_lookup(chk, ee):
    stmts = ee.sections.get('variable')
    if stmts is None:
        raise Unrecognised('C04.L', "no 'variable' section", ee.mod.rel)
    locals_var = ee.params[2] if len(ee.params) > 2 else 'locals_'
    # flatten returns in order with their guard
    order = []

    def rec(ss, guards):
        for s in ss:
            if isinstance(s, ast.If):
                rec(s.body, guards + [norm(s.test)])
                rec(s.orelse, guards + ['not (' + norm(s.test) + ')'])
            elif isinstance(s, ast.Return):
                order.append((guards, s))
    rec(stmts, [])
    kw = [r for g, r in order if isinstance(r.value, ast.Constant) and any("== 'null'" in x or "== 'true'" in x or "== 'false'" in x for x in g)]
    loc = [(g, r) for g, r in order if f'{locals_var}[' in norm(r.value)]
    glob = [(g, r) for g, r in order if 'globals_' in norm(r.value)]
    if len(kw) == 3 and order.index(next(x for x in order if x[1] is kw[-1])) < order.index(loc[0]) if loc else False:
        chk.ok('C04.L', 'variable read: keywords null/true/false first')
    else:
        chk.bad('C04.L', ee.mod, 'evaluate_expression', 'keyword order', 'the keywords null/true/false must be recognised before any variable lookup', node=stmts[0])
    if len(loc) == 1 and len(glob) >= 1:
        g = ' and '.join(loc[0][0])
        member = f"in {locals_var}" in g and f'{locals_var} is not None' in g
        if member and order.index(loc[0]) < order.index(glob[0]):
            chk.ok('C04.L', 'variable read: locals (by membership) before globals')
        else:
            chk.bad('C04.L', ee.mod, 'evaluate_expression', g[:120],
                    'a variable must be read from the call\'s locals when the name is a member of locals (even when its value is null), and from globals only otherwise', node=loc[0][1])
    else:
        chk.bad('C04.L', ee.mod, 'evaluate_expression', f'{len(loc)} local reads, {len(glob)} global reads', 'variable lookup must be: locals (membership), then globals', node=stmts[0])


def check_injection_sim(chk):
    """C04.I primary: execute_script evaluated on an empty script with caller-supplied globals that bind one library name to a host function and one to null -> True when decided OK"""
    from ..absint import Interp, ADict, AList, Sym, RaiseSig
    mod = chk.repo.module('runtime')
    func = mod.func('execute_script', 'C04.I')
    lib = {n: Sym('libfn', n) for n in ('arrayNew', 'arrayLength', 'stringNew', 'systemLog')}

    def run(options):
        it = Interp(mod, 'C04.I')
        it.repo = chk.repo
        it.max_depth = 12
        it.globals['SCRIPT_FUNCTIONS'] = ADict(dict(lib))
        it.oracles['_execute_script_helper'] = lambda args, node: None
        # helpers in other modules see the same table
        it.sub_interp(chk.repo.module('library')).globals['SCRIPT_FUNCTIONS'] = it.globals['SCRIPT_FUNCTIONS']
        try:
            it.call_function(func, [ADict({'statements': AList([])})] + ([options] if options is not None else []), func)
        except RaiseSig as sig:
            return sig
        return None
    host = Sym('hostfn', 'callers-arrayNew')
    G = ADict({'arrayNew': host, 'arrayLength': None, 'mine': 1.0})
    opts = ADict({'globals': G})
    r = run(opts)
    if r is not None:
        chk.bad('C04.I', mod, 'execute_script', f'raises {r.cls}', f'execute_script on an empty script with caller-supplied globals raises {r.cls}', node=func)
        return False
    problems = []
    if opts.d.get('globals') is not G:
        problems.append('the globals object supplied by the caller is replaced by another object (the caller no longer sees the final globals)')
    else:
        if G.d.get('arrayNew') is not host:
            problems.append(f'the caller-supplied global arrayNew is overwritten by {G.d.get("arrayNew")!r}')
        if 'arrayLength' not in G.d or G.d['arrayLength'] is not None:
            problems.append(f'the global arrayLength, which the caller bound to null, is overwritten by {G.d.get("arrayLength")!r} (a name bound to null is still the caller\'s)')
        if G.d.get('mine') != 1.0:
            problems.append('an unrelated caller global is changed')
        for nm in ('stringNew', 'systemLog'):
            if G.d.get(nm) != lib[nm]:
                problems.append(f'the library function {nm} is not added to the globals ({G.d.get(nm)!r})')
    opts2 = ADict({})
    r2 = run(opts2)
    if r2 is not None:
        problems.append(f'execute_script with options that have no globals raises {r2.cls}')
    else:
        g2 = opts2.d.get('globals')
        if not isinstance(g2, ADict) or any(g2.d.get(nm) != lib[nm] for nm in lib):
            problems.append(f'with no caller globals the library is not installed into options[\'globals\'] ({g2!r})'[:200])
    r3 = run(None)
    if r3 is not None:
        problems.append(f'execute_script without options raises {r3.cls}')
    if problems:
        chk.bad('C04.I', mod, 'execute_script', problems[0][:110], f'evaluation of execute_script on an empty script: {problems[0]}' + (f' (+{len(problems) - 1} more)' if len(problems) > 1 else ''), node=func)
        return False
    chk.ok('C04.I', 'execute_script evaluated on an empty script: caller-supplied globals keep a library name bound to a host function and one bound to null, other library functions are '
           'added to the same globals object; without caller globals the library is installed into options[globals]', count=3)
    return True


def check_injection(chk):
    mod = chk.repo.module('runtime')
    func = mod.func('execute_script', 'C04.I')
    galias = globals_aliases(func)
    found = False
    for n in walk_no_nested(func):
        if isinstance(n, (ast.GeneratorExp, ast.ListComp, ast.DictComp)) and any('SCRIPT_FUNCTIONS' in norm(g.iter) for g in n.generators):
            found = True
            gen = n.generators[0]
            conds = [norm(c) for c in gen.ifs]
            tgt = norm(gen.target)
            names = {tgt + '[0]'} if not isinstance(gen.target, ast.Tuple) else {norm(gen.target.elts[0])}
            ok = any(any(c == f'{nm} not in {g}' for nm in names for g in galias) for c in conds)
            if ok and len(conds) == 1:
                chk.ok('C04.I', f'library injection filtered by membership: {conds[0]}')
            elif len(conds) == 1 and any(conds[0].startswith(f'{nm} not in ') for nm in names):
                chk.unrec('C04.I', f'library injection is filtered by the membership test `{conds[0]}`, but the tested object is not recognised as the caller-supplied globals', mod.rel)
            else:
                chk.bad('C04.I', mod, 'execute_script', f'injection filter {conds}',
                        'library functions must be added only for names that are not members of the caller-supplied globals (a membership test; testing the value, e.g. '
                        '.get(name) is None, overwrites a name the caller bound to null)', node=n)
        if isinstance(n, ast.For) and 'SCRIPT_FUNCTIONS' in norm(n.iter):
            found = True
            tgt = n.target
            name = norm(tgt.elts[0]) if isinstance(tgt, ast.Tuple) else None
            ok = False
            for s in n.body:
                if isinstance(s, ast.If) and any(norm(s.test) == f'{name} not in {g}' for g in galias):
                    ok = True
                if isinstance(s, ast.Expr) and isinstance(s.value, ast.Call) and isinstance(s.value.func, ast.Attribute) and s.value.func.attr == 'setdefault':
                    ok = True
            if ok:
                chk.ok('C04.I', 'library injection loop guarded by membership / setdefault')
            else:
                chk.bad('C04.I', mod, 'execute_script', norm(n.body[0])[:120],
                        'library functions must be added only for names that are not members of the caller-supplied globals (membership test, not a test of the value)', node=n)
        if isinstance(n, ast.Call) and isinstance(n.func, ast.Attribute) and n.func.attr == 'update' and norm(n.func.value) in galias and n.args \
                and norm(n.args[0]) == 'SCRIPT_FUNCTIONS':
            found = True
            chk.bad('C04.I', mod, 'execute_script', norm(n), 'the library overwrites caller-supplied globals of the same name', node=n)
    if not found:
        raise Unrecognised('C04.I', 'library injection (iteration over SCRIPT_FUNCTIONS) not found in execute_script', mod.rel)


def check_function_statement(chk):
    check_calls_sim(chk)


def check_binding(chk):
    """decided together with C04.R / C04.F by check_calls_sim"""
    return None


def check_calls_sim(chk):
    """C04.R / C04.B / C04.F by abstract execution (E6s): a `function` statement is executed, the value it leaves in the globals
    object is applied to argument lists of every length, and the locals seen by the first evaluation inside the body are compared
    with the documented binding table."""
    if getattr(chk, '_c04_sim_done', False):
        return
    chk._c04_sim_done = True
    from .. import stepsim
    from ..absint import Sym, ADict, AList, RaiseSig
    mod, func, loop = helper_loop(chk.repo, 'C04.R')
    it = stepsim.StepInterp(chk.repo, mod, 'C04.R')
    it.schedule = [True]

    def fobj(name, args, last, tag):
        f = {'name': name, 'statements': [{'expr': {'name': 'x', 'expr': Sym('e', f'{tag}.0')}}, {'return': {'expr': Sym('e', f'{tag}.1')}}]}
        if args is not None:
            f['args'] = list(args)
        if last is not None:
            f['lastArgArray'] = last
        return f

    def run_model(model, scope, globals_init):
        locals_ = it.prepare(scope, 50, globals_init)
        try:
            it.call_function(func, [stepsim.build(model), it.options, locals_], func)
        except RaiseSig as sig:
            return None, f'raises {sig.cls}{sig.args_!r}'
        return locals_, None

    def call(fv, args):
        it.events = []
        arglist = AList(list(args))
        try:
            r = it.apply(fv, [arglist, it.options], func)
        except RaiseSig as sig:
            return ('raise', sig.cls, sig.args_), arglist
        return ('ok', r), arglist
    # ---- C04.R: the function statement
    host = Sym('host-function')
    for scope in ('global', 'function'):
        locals_, err = run_model([{'function': fobj('f', ['a'], None, 'F')}], scope, {'f': host, 'x': Sym('global-x')})
        g = it.globals_obj.d
        if err:
            chk.bad('C04.R', mod, func.name, f'function statement ({scope} scope): {err}', f'executing a function statement {err}')
            continue
        fv = g.get('f')
        if fv is host or fv is None or (locals_ is not None and 'f' in locals_.d):
            chk.bad('C04.R', mod, func.name, f'function statement in {scope} scope leaves globals[f] = {fv!r}',
                    'a function statement must bind the function in the GLOBALS object unconditionally (replacing a library / host function or an earlier definition of the same name), '
                    'also when executed inside a function body')
            continue
        res, _al = call(fv, [Sym('arg', 0)])
        ids = [e[1] for e in it.events]
        if res[0] == 'ok' and ids == ['F.0', 'F.1']:
            chk.ok('C04.R', f'function statement ({scope} scope): globals[name] becomes a callable that runs that statement\'s own statement list')
        else:
            chk.bad('C04.R', mod, func.name, f'call of the bound function evaluates {ids} / {res[0]}',
                    'the callable bound by a function statement must execute the statement list of that function object')
    # redefinition: the later statement wins
    locals_, err = run_model([{'function': fobj('f', [], None, 'F1')}, {'function': fobj('f', [], None, 'F2')}], 'global', {})
    if not err:
        res, _al = call(it.globals_obj.d.get('f'), [])
        ids = [e[1] for e in it.events]
        if ids == ['F2.0', 'F2.1']:
            chk.ok('C04.R', 'a second function statement of the same name replaces the first')
        else:
            chk.bad('C04.R', mod, func.name, f'redefinition evaluates {ids}', 'a later function statement of the same name must replace the earlier definition')
    # ---- C04.B / C04.F: binding table and frames
    cases = [(None, None), ([], None), (['a'], None), (['a', 'b'], None), (['a', 'b', 'c'], None), (['a'], True), (['a', 'b'], True), (['a', 'b', 'c'], True),
             (['a', 'b'], False), (['a'], False)]
    n_ok = 0
    reported = set()
    for params, last in cases:
        locals_, err = run_model([{'function': fobj('f', params, last, 'B')}], 'global', {'x': Sym('global-x'), 'a': Sym('global-a')})
        if err:
            chk.bad('C04.B', mod, func.name, f'function statement {params}: {err}', f'executing a function statement {err}')
            continue
        fv = it.globals_obj.d.get('f')
        frames = []
        for k in range(0, len(params or []) + 3):
            args = [Sym('arg', i) for i in range(k)]
            res, arglist = call(fv, args)
            desc = f'function f({", ".join(params or [])}{"..." if last else ""}){" [lastArgArray False]" if last is False else ""} called with {k} argument(s)'
            if res[0] != 'ok':
                key = ('raise', res[1])
                if key not in reported:
                    reported.add(key)
                    chk.bad('C04.B', mod, '_script_function', f'{desc}: {res[1]}', f'{desc} raises the host exception {res[1]}{res[2]!r}')
                continue
            first = next((e for e in it.events if e[1] == 'B.0'), None)
            if first is None or first[5] is None:
                if 'noframe' in reported:
                    continue
                reported.add('noframe')
                chk.bad('C04.F', mod, '_script_function', f'{desc}: body runs without a locals frame', 'the body of a script function must run with its own locals dict (assignments inside would otherwise go to globals)')
                continue
            snap, frame = first[5], first[6]
            want = {}
            for i, p in enumerate(params or []):
                if last and i == len(params) - 1:
                    want[p] = ('list', tuple(args[i:]))
                else:
                    want[p] = args[i] if i < k else None
            if snap != want:
                _missing = object()
                key = ('bind', frozenset((i < k, bool(last and i == len(params) - 1)) for i, p in enumerate(params or []) if snap.get(p, _missing) != want[p]),
                       bool(set(snap) - set(want)))
                if key not in reported:
                    reported.add(key)
                    chk.bad('C04.B', mod, '_script_function', f'{desc}: locals {snap!r}',
                            f'{desc}: the body starts with locals {snap!r}; the binding table dictates {want!r} (missing -> null, "..." -> fresh list of the remaining arguments, '
                            f'[] when none; surplus arguments ignored; no other names)')
                continue
            if last and params and frame.d.get(params[-1]) is arglist:
                if 'alias' in reported:
                    continue
                reported.add('alias')
                chk.bad('C04.B', mod, '_script_function', f'{desc}: "..." aliases the argument list', 'the "..." parameter must be a fresh list, not the caller\'s argument list itself')
                continue
            if any(f is frame for f in frames):
                chk.bad('C04.F', mod, '_script_function', f'{desc}: locals frame reused', 'every call of a script function must run with a locals dict created for that call')
                continue
            frames.append(frame)
            if it.globals_obj.d.get('x') != Sym('global-x') or 'x' not in frame.d:
                chk.bad('C04.F', mod, '_script_function', f'{desc}: assignment inside the body reaches globals', 'an assignment inside a function body must go to the call\'s locals, never to globals')
                continue
            if any(e[3] != 'same-options' for e in it.events):
                chk.bad('C04.F', mod, '_script_function', f'{desc}: other options object', 'a script function must run under the options object passed by its caller')
                continue
            n_ok += 1
    if n_ok:
        chk.ok('C04.B', f'{n_ok} abstract calls (0-3 declared parameters, with / without "...", explicit lastArgArray False, 0 to n+2 arguments): locals at the first statement of the body '
               f'equal the binding table (args[i] / fresh args[i:] / null / []; surplus ignored)', count=n_ok)
        chk.ok('C04.F', f'{n_ok} abstract calls: each call runs its own statement list with a locals dict created for the call, under the caller\'s options; assignments stay local')
        for ctx in ('argument present, ordinary parameter -> args[i]', 'argument present, the "..." parameter -> fresh args[i:]', 'argument missing, ordinary parameter -> null',
                    'argument missing, the "..." parameter -> []', 'explicit lastArgArray False behaves like absent', 'surplus arguments are ignored'):
            chk.ok('C04.B', ctx)


def check_callbacks(chk):
    from .c09 import check_callbacks as cb
    cb(chk)
    for inst in chk.instances:
        if inst['rule'] == 'C09.I':
            inst['rule'] = 'C04.O'
    for f in chk.findings:
        if f.rule == 'C09.I':
            f.rule = 'C04.O'
    # fresh argument list at every callback call in library.py
    for lf in library_functions(chk.repo, 'C04.O'):
        fn_vars = set()
        if lf.model and lf.targets:
            for t, e in zip(lf.targets, lf.model):
                if t and (e.get('type') == 'function' or e.get('type') is None):
                    fn_vars.add(t)
        for node in ast.walk(lf.func):
            if isinstance(node, ast.Call) and isinstance(node.func, ast.Name) and node.func.id in fn_vars and len(node.args) == 2:
                a = node.args[0]
                if isinstance(a, (ast.List, ast.ListComp)) or (isinstance(a, ast.Call) and call_name(a) == 'list'):
                    chk.ok('C04.O', f'{lf.name}: callback argument list {norm(a)[:50]} is built for the call')
                else:
                    chk.bad('C04.O', lf.mod, lf.pyname, norm(node)[:100],
                            'a callback is invoked with an argument list that is not built for this call (a stored / shared list): the callee\'s argument validation and '
                            '"..." binding mutate or alias it, so later calls observe earlier ones', node=node)


def run(chk):
    chk.rule('C04.W', 'assignment target by scope (3 abstract cases, abstract execution); enumerated writers of the globals object', floor=5)
    chk.rule('C04.F', 'fresh locals frame per call (abstract calls); top level and includes run with locals None', floor=3)
    chk.rule('C04.L', 'lookup order: keywords, locals (membership), globals; functions: locals, globals, built-ins under flag (abstract evaluation, E6e)', floor=1)
    chk.rule('C04.I', 'library injection never overwrites a caller-supplied name (membership filter)', floor=1)
    chk.rule('C04.R', 'function statement stores unconditionally a callable bound to its own function object', floor=1)
    chk.rule('C04.B', 'parameter binding decision table', floor=6)
    chk.rule('C04.O', 'library callbacks: fresh argument list, enclosing options unchanged', floor=3)
    chk.assumptions += ['models are schema-valid; host functions follow the (args, options) calling convention']
    from .c01 import check_programs
    chk.rule('C01.P', 'shared with C01: whole programs evaluated (E9r) - locals / globals, parameter binding (missing null, surplus ignored, trailing array), functions as values, a local '
             'hiding a global in call position, script functions replacing library functions - against the structured reading', floor=150)
    programs_ok = chk.guard('C01.P', check_programs, chk, 'C01.P', False)
    ee = EvalExpr(chk.repo, 'C04.L')
    chk.guard('C04.W', check_assignment, chk)
    # who stores into the globals object: a read-back of the whole-program evaluation (final globals of every program compared)
    chk.readback(programs_ok)('C04.W', check_global_stores, chk)
    if programs_ok:
        chk.floors['C04.W'] = 3
    chk.guard('C04.F', check_frames, chk)
    from .. import evalsim
    chk.guard('C04.L', evalsim.report, chk, {'lookup': 'C04.L'}, {'lookup': 'variables: keywords, then locals by membership (a local bound to null shadows the global), then globals; '
                                                                          'functions: locals, globals, built-ins only under the builtins flag; undefined function raises'})
    if chk.guard('C04.I', check_injection_sim, chk):
        chk.advisory('C04.I', check_injection, chk)
    else:
        chk.guard('C04.I', check_injection, chk)
    chk.guard('C04.R', check_function_statement, chk)
    chk.guard('C04.B', check_binding, chk)
    chk.guard('C04.O', check_callbacks, chk)
    # parameter names reach the binding loop through the parser's argument split (shared with C10.A)
    from .c10 import check_arg_split
    from ..lowering import ParserModel
    from .c10 import check_layout_sim
    chk.rule('C10.L', 'shared with C10: every respelling of a function header gives the same parameter names (parse_script evaluated on layout variants, E6p)')
    layout_ok = chk.guard('C10.L', check_layout_sim, chk)
    chk.rule('C10.A', 'shared with C10: the parameter-list split consumes exactly the separator the function-begin regex allows (no blank ends up inside a parameter name)')
    chk.readback(layout_ok)('C10.A', lambda: check_arg_split(chk, ParserModel(chk.repo, 'C10.A')))
