"""C01 - structured control flow runs with its source-level meaning."""
import ast
import time

from ..core import Unrecognised, norm, call_name, walk_no_nested
from ..absint import Sym, ALine, reify
from ..lowering import (ParserModel, Shape, B, constructs, ref_graph, Lowered, ForLoops, bisimulate, Mismatch, EXIT, obs_label)

EXPLANATION = (
    'The lowering in parser.parse_script is syntax directed. E6 (abstract interpretation of the handler bodies: regex '
    'matches, groups and parsed sub-expressions are opaque symbols; dict/list templates, the construct stack, the label '
    'counter and the mutation of already emitted jump objects are evaluated exactly) extracts, for every nesting shape '
    'of if / if-else / if-elif / if-elif-else / while / for / for-with-index with break and continue sites, at global '
    'scope and inside functions, the emitted jump-level statement list. That list is turned into a deterministic event '
    'graph (tests of source conditions with polarity normalised, bodies, for-loop value evaluation and next-element '
    'tests; labels, unconditional jumps and bookkeeping assignments silent) and compared by lock-step bisimulation with '
    'the structured big-step reading of the shape: a loop condition is re-tested before every iteration and after '
    'continue, break leaves the innermost loop, an if chain tests conditions in order and runs exactly the first true '
    'branch, for evaluates its values once and enters the body only after a successful next-element test. Data rules '
    'on the silent statements of each edge give "in index order": length taken from the once-evaluated values, index '
    'set to 0 on entry, incremented by 1 exactly once before every re-test, element fetched from (values, index) before '
    'every body entry; the user index variable is the loop index. C01.B: closers / break / continue below the function '
    'floor or on a wrong stack top raise. C01.S: the construct stack is only pushed, popped, measured and searched for '
    'the nearest non-if record, so a handler depends only on the top (or nearest loop) record and the floor '
    'comparison: obligations established for all shapes to depth 3 (thorough: 4) extend to every depth by structural '
    'induction. Runtime meaning of the emitted jump code is C08; values are never examined.')
ENUMERATION = ('one instance per (shape, scope) compared by bisimulation, per for-loop data rule per shape, per error shape, '
               'per use of the construct stack; shapes: every nesting of the seven constructs with break/continue sites to '
               'the tier depth, at global scope, inside a function, and after a sibling construct; distinct by statement list')


def rule_of(why):
    if why.startswith('while'):
        return 'C01.W'
    if why.startswith('if'):
        return 'C01.I'
    if why.startswith('for'):
        return 'C01.F'
    return 'C01.Q'


def scopes_of(model, ref_items):
    """[(scope name, statement list, reference items)]"""
    out = [('global', model['statements'], ref_items)]
    def collect(items):
        found = []
        for it in items:
            if it[0] == 'func':
                found.append(it)
            elif it[0] == 'if':
                for _lid, body in it[1]:
                    found += collect(body)
                if it[2]:
                    found += collect(it[2])
            elif it[0] in ('while', 'for'):
                found += collect(it[2])
        return found
    funcs = collect(ref_items)
    fstmts = [s for s in model['statements'] if isinstance(s, dict) and 'function' in s]
    if len(funcs) != len(fstmts):
        raise Mismatch('function statements', f'{len(funcs)} function definitions in the source, {len(fstmts)} function statements in the global list')
    for f, s in zip(funcs, fstmts):
        fn = s['function']
        if not isinstance(fn, dict) or 'statements' not in fn:
            raise Mismatch('function statements', 'function statement without a statements list')
        out.append((f'function at line {f[1]}', fn['statements'], f[2]))
    return out


def check_for_data(chk, pm, low, fl, edges, shape_lines, desc):
    """data rules on silent statements per edge"""
    problems = []
    kinds = low.kinds
    for lid, inf in fl.info.items():
        line = shape_lines[lid]
        I, V, Ln = inf.get('index'), inf.get('values'), inf.get('length')
        if Ln is None or len(inf.get('len_ixs', [])) != 1:
            problems.append(('for: length of the once-evaluated values', f'expected exactly one `length := arrayLength(values)` for the loop, found {len(inf.get("len_ixs", []))}'))
            continue
        if I is None or len(inf.get('fetch_ixs', [])) < 1:
            problems.append(('for: element fetch', 'no `value := arrayGet(values, index)` statement for the loop'))
            continue
        if inf.get('idx0_value') != 0 or len(inf.get('idx0_ixs', [])) != 1:
            problems.append(('for: index starts at 0', f'the loop index is initialised {len(inf.get("idx0_ixs", []))} times with value {inf.get("idx0_value")!r}'))
        inc = inf.get('inc')
        if inc is None or inc != ('+', I, 1):
            problems.append(('for: index advances by 1', f'the loop index update is {inc!r}, expected index := index + 1'))
        want_value = Sym('group', line.regex, 'value', lid)
        if inf.get('value') != want_value:
            problems.append(('for: loop variable', f'the fetched element is stored in {inf.get("value")!r}, not in the loop variable of the for statement'))
        if line.groups.get('index') is not None:
            if I != Sym('group', line.regex, 'index', lid):
                problems.append(('for: user index variable', f'`for v, i in ...`: the index variable given by the user is not the loop index ({I!r})'))
        elif not (isinstance(I, str) and I.startswith('__bareScript')):
            problems.append(('for: generated index variable', f'the generated index variable {I!r} does not use the reserved prefix'))
        rels = [t for t in inf['tests'] if t[1].startswith('rel')]
        for _ix, tk, _neg in rels:
            if tk not in ('rel:<', 'rel:>='):
                problems.append(('for: re-test compares index with length', f'the loop re-test is {tk}, expected index < length'))
    for why, passed, li, src, rn in edges:
        for lid, inf in fl.info.items():
            def cnt(key):
                return [p for p in passed if p in inf.get(key, [])]
            dest = obs_label(low, li, fl) if li is not None else None
            srck = obs_label(low, src[0], fl) if src else None
            if srck == ('forinit', lid):
                if dest != ('hasnext', lid):
                    continue
                if len(cnt('len_ixs')) != 1 or cnt('idx0_ixs') and passed.index(cnt('idx0_ixs')[0]) < passed.index(cnt('len_ixs')[0]) and False:
                    problems.append(('for: length of the once-evaluated values', 'the length is not computed between the evaluation of the values and the first element test'))
                if cnt('inc_ixs') or cnt('fetch_ixs'):
                    problems.append(('for: entry', 'index increment / element fetch before the first element test'))
                tk = next((t for t in inf['tests'] if t[0] == li), None)
                if tk is not None and tk[1] != 'nonempty':
                    if not cnt('idx0_ixs'):
                        problems.append(('for: index starts at 0', 'the first element test compares an index that was not initialised'))
            elif srck == ('hasnext', lid) and src[1] == 'T':
                tk = next((t for t in inf['tests'] if t[0] == src[0]), None)
                fetches = cnt('fetch_ixs')
                if len(fetches) != 1:
                    problems.append(('for: element fetch', f'after a successful next-element test the element is fetched {len(fetches)} times before the body'))
                if cnt('inc_ixs'):
                    problems.append(('for: index advances by 1', 'the index is advanced between the next-element test and the body (an element is skipped)'))
                if tk is not None and tk[1] == 'nonempty':
                    z = cnt('idx0_ixs')
                    if len(z) != 1 or (fetches and passed.index(z[0]) > passed.index(fetches[0])):
                        problems.append(('for: index starts at 0', 'on loop entry the index is not set to 0 before the first element is fetched'))
                elif cnt('idx0_ixs'):
                    problems.append(('for: index starts at 0', 'the index is reset on a later iteration'))
            elif dest == ('hasnext', lid) and srck != ('forinit', lid):
                tk = next((t for t in inf['tests'] if t[0] == li), None)
                incs = cnt('inc_ixs')
                if tk is not None and tk[1] == 'nonempty':
                    problems.append(('for: re-test', f'an iteration returns to the entry test of the loop ({why})'))
                elif len(incs) != 1:
                    problems.append(('for: index advances by 1', f'on the way back to the next-element test ({why}) the index is advanced {len(incs)} times'))
                if cnt('idx0_ixs') or cnt('fetch_ixs') or cnt('len_ixs'):
                    problems.append(('for: iteration', f'loop bookkeeping other than the increment runs on the way back to the next-element test ({why})'))
    return problems


def run_shape(chk, pm, items, desc, wrap=None):
    """lower one shape and compare; returns (n_scopes_ok, statement-list signature)"""
    sh = Shape(pm)
    if wrap == 'function':
        ref = sh.emit_block([B, ('func', items, False), B], 0)
    elif wrap == 'function-args':
        ref = sh.emit_block([('func', items, True), B], 0)
    elif wrap == 'sibling':
        ref = sh.emit_block([('if', [[B]], None), ('while', [B])] + items, 0)
    elif wrap == 'function-in-block':
        ref = sh.emit_block([('while', [B, ('if', [[('func', items, False), B]], None)])], 0)
    else:
        ref = sh.emit_block(items, 0)
    src = '\n'.join(sh.src)
    st, val, it = pm.lower(sh.lines)
    if st != 'ok':
        chk.bad('C01.Q', pm.mod, 'parse_script', f'well-formed shape rejected: {val.cls}{tuple(str(a)[:40] for a in val.args_)}',
                f'a well-formed structured program is rejected by the parser ({val.cls}: {val.args_[0] if val.args_ else ""}). Program:\n{src}',
                node=val.node, detail={'program': src})
        return None
    model = reify(val)
    sig = repr(model)
    try:
        scopes = scopes_of(model, ref)
    except Mismatch as m:
        chk.bad('C01.C', pm.mod, 'parse_script', m.why, f'{m.detail}. Program:\n{src}', detail={'program': src})
        return sig
    for sname, stmts, ritems in scopes:
        low = Lowered(stmts, sh.lines, sname)
        low.lines_src = sh.src
        problems = []
        fl = ForLoops(low, problems)
        try:
            edges = bisimulate(low, ref_graph(ritems), fl)
        except Mismatch as m:
            chk.bad(rule_of(m.why), pm.mod, 'parse_script', m.why,
                    f'lowered control flow differs from the structured meaning at "{m.why}": {m.detail}. Smallest program of this run showing it:\n{src}',
                    detail={'program': src, 'scope': sname, 'lowered': [repr(s)[:160] for s in stmts]})
            continue
        problems += check_for_data(chk, pm, low, fl, edges, sh.lines, desc)
        for why, detail in problems:
            chk.bad('C01.F', pm.mod, 'parse_script', why, f'{detail}. Program:\n{src}', detail={'program': src, 'scope': sname})
        if not problems:
            chk.ok('C01.flow', f'{desc} [{sname}]: {len(stmts)} statements bisimilar to the structured reading; {len(fl.info)} for-loops data rules hold',
                   detail={'program': src.split(chr(10))} if len(chk.instances) < 3 else None)
    return sig


ERROR_SHAPES = [
    # (description, items as list of (kind, present) lines, expected error substring or None)
    ('break in a function whose loop is outside the function', [('while',), ('function',), ('break',), ('endfunction',), ('endwhile',)]),
    ('continue in a function whose loop is outside the function', [('for',), ('function',), ('continue',), ('endfunction',), ('endfor',)]),
    ('break outside any loop', [('if',), ('break',), ('endif',)]),
    ('continue outside any loop', [('expr',), ('continue',)]),
    ('endif inside a function closing an outer if', [('if',), ('function',), ('endif',), ('endfunction',)]),
    ('elif inside a function continuing an outer if', [('if',), ('function',), ('elif',), ('endfunction',), ('endif',)]),
    ('else inside a function continuing an outer if', [('if',), ('function',), ('else',), ('endfunction',), ('endif',)]),
    ('endwhile inside a function closing an outer while', [('while',), ('function',), ('endwhile',), ('endfunction',)]),
    ('endfor inside a function closing an outer for', [('for',), ('function',), ('endfor',), ('endfunction',)]),
    ('endfunction with a construct still open inside the function', [('function',), ('while',), ('endfunction',)]),
    ('endfunction with an if still open inside the function', [('function',), ('if',), ('expr',), ('endfunction',)]),
    ('nested function definition', [('function',), ('function',), ('endfunction',), ('endfunction',)]),
    ('endfunction without function', [('expr',), ('endfunction',)]),
    ('endif closing a while', [('while',), ('endif',)]),
    ('endwhile closing an if', [('if',), ('endwhile',)]),
    ('endfor closing a while', [('while',), ('endfor',)]),
    ('endwhile closing a for', [('for',), ('endwhile',)]),
    ('endif without if', [('endif',)]),
    ('endwhile without while', [('endwhile',)]),
    ('endfor without for', [('endfor',)]),
    ('elif without if', [('elif',)]),
    ('else without if', [('else',)]),
    ('elif inside a while that is inside the if', [('if',), ('while',), ('elif',), ('endwhile',), ('endif',)]),
    ('second else', [('if',), ('else',), ('else',), ('endif',)]),
    ('elif after else', [('if',), ('else',), ('elif',), ('endif',)]),
    ('if left open at end of input', [('if',), ('expr',)]),
    ('while left open at end of input', [('expr',), ('while',), ('expr',)]),
    ('for left open at end of input', [('for',)]),
    ('function left open at end of input', [('function',), ('expr',)]),
    ('if left open inside a function at end of input', [('function',), ('if',)]),
]


def check_error_shapes(chk, pm, rule='C01.B'):
    for desc, lines in ERROR_SHAPES:
        sh = Shape(pm)
        for ln in lines:
            sh.add(ln[0], ln[0] + (' ...' if ln[0] in ('if', 'elif', 'while', 'for', 'function') else ''))
        st, val, it = pm.lower(sh.lines)
        if st == 'error' and val.cls == 'BareScriptParserError':
            chk.ok(rule, f'{desc}: rejected ({val.args_[0] if val.args_ else ""})')
        elif st == 'error':
            chk.bad(rule, pm.mod, 'parse_script', f'{desc}: {val.cls}', f'ill-formed program ({desc}) makes the parser raise {val.cls} instead of BareScriptParserError: '
                    + ' / '.join(sh.src), node=val.node)
        else:
            chk.bad(rule, pm.mod, 'parse_script', f'{desc}: accepted',
                    f'ill-formed program ({desc}) is accepted silently: ' + ' / '.join(sh.src) + ' - jumps/labels then cross a function boundary or a block is left open',
                    detail={'program': sh.src})


def check_stack_discipline(chk, pm):
    func = pm.func
    # the stack variable: initialised to [] in the prologue and appended a one-key dict in a handler
    cands = [s.targets[0].id for s in pm.prologue if isinstance(s, ast.Assign) and isinstance(s.targets[0], ast.Name) and isinstance(s.value, ast.List) and not s.value.elts]
    stack = None
    for c in cands:
        for n in ast.walk(pm.loop):
            if isinstance(n, ast.Call) and isinstance(n.func, ast.Attribute) and n.func.attr == 'append' and norm(n.func.value) == c and n.args \
                    and isinstance(n.args[0], ast.Dict) and len(n.args[0].keys) == 1:
                stack = c
    if stack is None:
        raise Unrecognised('C01.S', 'construct stack variable not found', pm.mod.rel)
    bad = []
    n_uses = 0
    for n in ast.walk(func):
        if isinstance(n, ast.Name) and n.id == stack:
            par = getattr(n, '_parent', None)
            gp = getattr(par, '_parent', None)
            n_uses += 1
            ok = False
            if isinstance(par, ast.Attribute) and par.attr in ('append', 'pop') and isinstance(gp, ast.Call):
                ok = (par.attr == 'append' and len(gp.args) == 1) or (par.attr == 'pop' and not gp.args)
            elif isinstance(par, ast.Call) and call_name(par) == 'len':
                ok = True
            elif isinstance(par, ast.Subscript) and par.value is n:
                t = norm(par.slice)
                ok = t in (f'len({stack}) - 1', '-1') or (isinstance(par.slice, ast.Name))
            elif isinstance(par, (ast.If, ast.While, ast.IfExp)) and par.test is n:
                ok = True
            elif isinstance(par, ast.Call) and call_name(par) == 'enumerate' and 'reversed' in norm(getattr(getattr(gp, '_parent', None), '_parent', gp)) + norm(gp):
                ok = True
            elif isinstance(par, ast.Assign) and n in par.targets:
                ok = isinstance(par.value, ast.List) and not par.value.elts and par in pm.prologue
            elif isinstance(par, (ast.UnaryOp,)) and isinstance(par.op, ast.Not):
                ok = True
            elif isinstance(par, ast.Subscript) and par.value is n and isinstance(par.slice, ast.Slice) and isinstance(getattr(par, 'ctx', None), ast.Load):
                ok = True        # a read-only slice (copy) of the stack
            elif isinstance(par, ast.Call) and isinstance(par.func, ast.Name) and par.func.id in pm.mod.funcs and n in par.args:
                # the stack is handed to a module-level helper: accepted when the helper only reads that parameter
                helper = pm.mod.funcs[par.func.id]
                hp = [a.arg for a in helper.args.args]
                ix = par.args.index(n)
                if ix < len(hp):
                    pname = hp[ix]
                    ok = True
                    for x in ast.walk(helper):
                        if isinstance(x, ast.Name) and x.id == pname:
                            xp = getattr(x, '_parent', None)
                            xg = getattr(xp, '_parent', None)
                            if isinstance(xp, ast.Attribute) and xp.attr in ('append', 'pop', 'clear', 'insert', 'extend', 'remove', 'sort', 'reverse'):
                                ok = False
                            if isinstance(xp, ast.Subscript) and isinstance(getattr(xp, 'ctx', None), (ast.Store, ast.Del)):
                                ok = False
                            if isinstance(x.ctx, ast.Store):
                                ok = False
            if not ok:
                bad.append(n)
    if bad:
        for n in bad[:3]:
            raise Unrecognised('C01.S', f'the construct stack {stack} is used in an unrecognised way: {norm(getattr(n, "_parent", n))[:80]} '
                               f'(the induction from bounded nesting depth to all depths needs a pure stack discipline)', f'{pm.mod.rel}:{n.lineno}')
    chk.ok('C01.S', f'construct stack {stack}: {n_uses} uses, all of them push / pop() / len / top / truthiness / nearest-non-if search')
    # the nearest-loop search skips exactly the `if` records
    for n in ast.walk(pm.loop):
        if isinstance(n, ast.GeneratorExp) and 'enumerate' in norm(n.generators[0].iter) and stack in norm(n.generators[0].iter):
            cond = [norm(c) for c in n.generators[0].ifs]
            if 'reversed' in norm(n.generators[0].iter) and len(cond) == 1 and cond[0].startswith("'if' not in "):
                chk.ok('C01.S', f'nearest enclosing loop search: reversed stack scan skipping if records ({cond[0]})')
            else:
                chk.bad('C01.B', pm.mod, 'parse_script', norm(n)[:120], 'break/continue must bind to the NEAREST enclosing non-if record (reversed scan, skipping only if records)', node=n)


def jobs_for(tier):
    shapes = shapes_for(tier)
    jobs = []
    for ix, item in enumerate(shapes):
        for wrap in (None, 'function', 'sibling') if (ix % 7 == 0 or tier == 'thorough' or ix < 60) else (None, 'function' if ix % 2 else 'sibling'):
            jobs.append((ix, wrap))
        if ix % 5 == 0 or tier == 'thorough':
            jobs.append((ix, 'function-in-block'))       # a function defined inside open global blocks: its loops must not see the enclosing records
    return shapes, jobs


class Recorder:
    """stand-in for Check inside worker processes: records ok/bad calls"""

    def __init__(self):
        self.ops = []
        self.instances = [None] * 10

    def ok(self, rule, where, detail=None, trivial=False):
        self.ops.append(('ok', rule, where, None, trivial))

    def bad(self, rule, mod, func, construct, what, node=None, detail=None):
        self.ops.append(('bad', rule, func, construct, what, getattr(node, 'lineno', None), detail))


def _worker(args):
    root, tier, lo, hi = args
    from ..core import Repo
    repo = Repo(root)
    pm = ParserModel(repo, 'C01.flow')
    shapes, jobs = jobs_for(tier)
    rec = Recorder()
    sigs = set()
    for ix, wrap in jobs[lo:hi]:
        sig = run_shape(rec, pm, [shapes[ix]], f'shape {ix}' + (f' ({wrap})' if wrap else ''), wrap)
        if sig:
            sigs.add(hash(sig))
    return rec.ops, sigs


def run_all_shapes(chk, pm, seen):
    import os
    shapes, jobs = jobs_for(chk.tier)
    nproc = min(16, os.cpu_count() or 1)
    ops = []
    if nproc > 1 and len(jobs) > 64 and not os.environ.get('VERIF_SERIAL'):
        import concurrent.futures as cf
        step = max(16, (len(jobs) + nproc * 4 - 1) // (nproc * 4))
        chunks = [(chk.repo.root, chk.tier, lo, min(lo + step, len(jobs))) for lo in range(0, len(jobs), step)]
        try:
            with cf.ProcessPoolExecutor(max_workers=nproc) as ex:
                for o, sg in ex.map(_worker, chunks):
                    ops.extend(o)
                    seen |= sg
        except (OSError, cf.process.BrokenProcessPool):
            ops = None
    else:
        ops = None
    if ops is None:
        o, sg = _worker((chk.repo.root, chk.tier, 0, len(jobs)))
        ops = o
        seen |= sg

    class _N:
        def __init__(self, lineno):
            self.lineno = lineno
    for op in ops:
        if op[0] == 'ok':
            chk.ok(op[1], op[2], trivial=op[4])
        else:
            chk.bad(op[1], pm.mod, op[2], op[3], op[4], node=_N(op[5]) if op[5] else None, detail=op[6])
    return len(jobs)


def shapes_for(tier):
    depth = 3 if tier == 'quick' else 4
    return constructs(depth, 'full')


def _share_layout(chk):
    from .c10 import check_layout_sim
    chk.rule('C10.L', 'shared with C10: well-formed programs (incl. string literals / comments containing U+2028, form feed, U+0085 and non-ASCII names) parse to the same model in every layout (E6p)')
    chk.guard('C10.L', check_layout_sim, chk)


def check_programs(chk, rule='C01.P', report_known=True):
    """E9r: parse_script + execute_script evaluated on whole concrete programs against the structured (big-step) reading of the source -> True when every program agrees"""
    from ..progsim import run_programs
    n, problems, known = run_programs(chk.repo, chk.tier, rule)
    pmod = chk.repo.module('parser')
    rmod = chk.repo.module('runtime')
    if known and report_known:
        chk.bad('C01.W', pmod, 'parse_script', 'while: continue -> re-test the condition', known[0][1][:600] + f' ({len(known)} runs)')
    seen = set()
    for desc, text, gdesc, msg in problems:
        if desc in seen or len(seen) >= 3:
            continue
        seen.add(desc)
        chk.bad(rule, rmod, 'parse_script + execute_script', f'program: {desc}', f'whole-program evaluation, program "{desc}" with the initial global g {gdesc}: the run {msg} '
                f'({len(problems)} of {n} runs deviate)', detail={'program': text, 'g': gdesc})
    if not problems:
        chk.ok(rule, f'{n} runs of hand-written and grammar-generated structured programs (empty bodies, every construct nested to depth 5, up to 3 functions, break / continue / return at every '
               f'level, initial globals of every plain value type): return value, log sequence and final globals equal the structured reading'
               + (f'; {len(known)} runs differ only by the known while/continue finding' if known else ''), count=n)
    return not problems


def run(chk):
    _share_layout(chk)
    chk.rule('C01.P', 'whole programs: parse_script + execute_script (evaluated, E9r) give the return value, logs and final globals of the structured big-step reading of the source', floor=150)
    programs_ok = chk.guard('C01.P', check_programs, chk)
    chk.rule('C01.flow', 'bisimulation of the lowered statement list with the structured reading + for-loop data rules, per shape and scope', floor=300)
    chk.rule('C01.W', 'while: body only after a true test; condition re-tested before every iteration and after continue; break/false leave the loop')
    chk.rule('C01.I', 'if chain: conditions tested in order; exactly the first true branch runs; else iff all false')
    chk.rule('C01.F', 'for: values evaluated once; index 0,1,2..; element fetched from (values, index) before each body entry; guards; continue/break')
    chk.rule('C01.Q', 'sequencing / well-formed programs accepted')
    chk.rule('C01.C', 'function bodies are lowered into their own statement list')
    chk.rule('C01.B', 'break/continue/closers bind within the function floor and to the right record, else the parser raises', floor=25)
    chk.rule('C01.S', 'stack discipline of the construct stack (induction step)', floor=1)
    chk.assumptions += ['runtime semantics of jump/label/return and of arrayLength/arrayGet are decided by C08 / C15; expression evaluation by C03',
                        'structural induction: handler behaviour depends only on the stack top / nearest loop record and the floor comparison (C01.S)']
    pm = ParserModel(chk.repo, 'C01.flow')
    t0 = time.time()
    seen = set()
    n = run_all_shapes(chk, pm, seen)
    # two functions + global code between them (label counter across scopes)
    two = [('func', [('while', [B, ('if', [[('continue',)]], None)])], True), ('for', False, [B, ('if', [[('break',)]], None)]),
           ('func', [('if', [[B], [B]], [B]), ('for', True, [B, ('continue',)])], False), ('while', [B])]
    run_shape(chk, pm, two, 'two functions with global code between')
    chk.extra['shapes'] = n
    chk.extra['distinct_statement_lists'] = len(seen)
    chk.extra['shape_time_s'] = round(time.time() - t0, 2)
    chk.guard('C01.B', check_error_shapes, chk, pm)
    if programs_ok:
        chk.advisory('C01.S', check_stack_discipline, chk, pm)
        chk.floors.pop('C01.S', None)
    else:
        chk.guard('C01.S', check_stack_discipline, chk, pm)
    # the runtime half of "parse_script followed by execute_script": jump-level semantics (C08) and assignment scope / frames (C04)
    from . import c08, c04
    for r, d in (('C08.PC', 'shared with C08: program counter discipline'), ('C08.L', 'shared with C08: label lookup'), ('C08.J', 'shared with C08: conditional jump by value_boolean'),
                 ('C08.R', 'shared with C08: return'), ('C08.X', 'shared with C08: statement dispatch'), ('C04.W', 'shared with C04: assignment scope'), ('C04.F', 'shared with C04: frames'),
                 ('C04.R', 'shared with C04: function statement'), ('C04.B', 'shared with C04: parameter binding')):
        chk.rule(r, d)
    chk.rule('C08.E', 'shared with C08: abstract execution of the statement loop over small jump-level models')
    (chk.advisory if programs_ok else chk.guard)('C08.X', c08.check_dispatch, chk)
    chk.guard('C08.E', c08.check_step, chk)
    if programs_ok:
        chk.advisory('C08.PC', c08._pc_rule, chk)
    else:
        c08._pc_rule(chk)
    (chk.advisory if programs_ok else chk.guard)('C08.L', c08.check_labels, chk)
    (chk.advisory if programs_ok else chk.guard)('C08.J', c08.check_truthiness, chk)
    chk.guard('C04.W', c04.check_assignment, chk)
    chk.guard('C04.F', c04.check_frames, chk)
    chk.guard('C04.R', c04.check_function_statement, chk)
    chk.guard('C04.B', c04.check_binding, chk)
