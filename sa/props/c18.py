"""C18 - lint is pure, never fails, and its warnings are semantically justified."""
import ast

from ..core import Unrecognised, norm, call_name, walk_no_nested, const_str, subscript_path, if_chain
from .. import schema as schema_mod
from . import c08

EXPLANATION = (
    'C18.M (purity): the model-immutability effect analysis of C08.M applied to everything reachable from lint_script in '
    'model.py; accumulators are locals; no module-level state is written. C18.K (never raises): path typing with the '
    'schema read by E5 - every subscript x[k] on a model node names a required member of the node\'s struct, or the '
    'access is dominated by a test `k in x`; optional members are read with .get or under such a test. C18.X: the '
    'use-collector visits every schema position where an Expression can occur (statement expr, jump expr, return '
    'expr, function args, binary left AND right, unary expr, group) and counts a function node\'s name as a use; '
    '_is_pointless_expression is false for any node containing a function call and recurses through both operands of '
    'binary nodes, unary and group. C18.L: labels and jump targets are collected per statement list - the global list '
    'and each function body separately, with fresh tables created per function - which is exactly the scope of the '
    'runtime search (C08.L); unknown = used - defined, unused = defined - used, redefinition = second definition in the '
    'same list; likewise function redefinition and duplicate arguments. C18.O: every loop that emits warnings iterates '
    'a list in model order or sorted(keys): same model, same warnings, in the same order, in every process. C18.S: '
    'unused-variable/argument warnings are issued only for names assigned in a function body or its parameters. '
    'Behaviour preservation of acting on a warning for every run needs an execution oracle and is not decided.')
ENUMERATION = 'model-derived mutation candidates, key accesses on model nodes, expression positions of the schema, label tables, warning loops'


def optional_paths(sch):
    """set of (struct, member) that are optional"""
    return {(t, k) for t, ms in sch.structs.items() for k, m in ms.items() if m.optional}


def check_optional_keys(chk, sch, modules=('model', 'runtime'), rule='C18.K'):
    all_members = {}
    for tname, members in list(sch.structs.items()) + list(sch.unions.items()):
        for k, m in members.items():
            all_members.setdefault(k, []).append((tname, m))

    def types_of_chain(keys):
        """possible (container type, member) for the LAST key of a chain"""
        first = keys[0]
        cands = [(t, m) for t, m in all_members.get(first, [])]
        for k in keys[1:]:
            nxt = []
            for _t, m in cands:
                ms = sch.members(m.type)
                if ms and k in ms:
                    nxt.append((m.type, ms[k]))
            cands = nxt
        return cands
    n = 0
    for modname in modules:
        mod = chk.repo.module(modname)
        for fname, func in mod.funcs.items():
            names = c08.model_derived_names(func)
            if not names:
                continue
            for node in walk_no_nested(func):
                if not (isinstance(node, ast.Subscript) and const_str(node.slice) is not None and isinstance(node.ctx, ast.Load)):
                    continue
                base, keys = subscript_path(node)
                if not isinstance(base, ast.Name) or base.id not in names or not keys:
                    continue
                cands = types_of_chain(keys)
                if not cands:
                    continue   # unknown path: C07.R reports it
                if not all(m.optional for _t, m in cands if not isinstance(m, type(None))):
                    continue   # required member (or a union key: exactly one key exists - the dispatch guarantees which)
                if all(t in sch.unions for t, _m in cands):
                    continue
                n += 1
                k = keys[-1]
                holder = norm(node.value)
                if _guarded(node, k, holder):
                    chk.ok(rule, f'{modname}.{fname}: {norm(node)[:60]} is read under a `{k!r} in ...` test')
                else:
                    chk.bad(rule, mod, fname, norm(node)[:80],
                            f"{norm(node)[:60]}: member '{k}' is optional in the schema ({', '.join(sorted({t for t, _m in cands}))}) and is read without a `'{k}' in ...` test or .get(): "
                            f"a schema-valid model that omits it raises KeyError", node=node)
    if n < 5:
        raise Unrecognised(rule, f'only {n} optional-member accesses found', None)


def _guarded(node, key, holder):
    """is the Subscript dominated by `'key' in holder` (enclosing if / and-clause / conditional expression / comprehension-if)?"""
    want = f"'{key}' in {holder}"
    child = node
    cur = getattr(node, '_parent', None)
    while cur is not None:
        if isinstance(cur, ast.If) and _in(child, cur.body) and want in _conjuncts(cur.test):
            return True
        if isinstance(cur, ast.IfExp) and child is cur.body and want in _conjuncts(cur.test):
            return True
        if isinstance(cur, ast.BoolOp) and isinstance(cur.op, ast.And):
            ix = next((i for i, v in enumerate(cur.values) if v is child or any(x is child for x in ast.walk(v))), None)
            if ix is not None and any(want in _conjuncts(v) for v in cur.values[:ix]):
                return True
        if isinstance(cur, ast.BoolOp) and isinstance(cur.op, ast.Or):
            ix = next((i for i, v in enumerate(cur.values) if v is child or any(x is child for x in ast.walk(v))), None)
            if ix is not None and any(norm(v) == f"'{key}' not in {holder}" for v in cur.values[:ix]):
                return True
        if isinstance(cur, ast.If) and _in(child, cur.orelse):
            # else-branch of `'key' not in holder`
            if f"'{key}' not in {holder}" in _conjuncts(cur.test):
                return True
        if isinstance(cur, (ast.FunctionDef,)):
            break
        child = cur
        cur = getattr(cur, '_parent', None)
    return False


def _in(node, stmts):
    return any(node is s or any(node is x for x in ast.walk(s)) for s in stmts)


def _conjuncts(test):
    if isinstance(test, ast.BoolOp) and isinstance(test.op, ast.And):
        out = []
        for v in test.values:
            out += _conjuncts(v)
        return out
    return [norm(test)]


def check_traversal(chk, sch):
    mod = chk.repo.module('model')
    f = mod.func('_get_expression_variable_uses', 'C18.X')
    p = f.args.args[0].arg
    kv = None
    for s in f.body:
        if isinstance(s, ast.Assign) and 'keys' in norm(s.value):
            kv = s.targets[0].id
    chain = next((s for s in f.body if isinstance(s, ast.If)), None)
    if kv is None or chain is None:
        raise Unrecognised('C18.X', '_get_expression_variable_uses: kind dispatch not found', mod.rel)
    branches = {}
    for test, body in if_chain(chain):
        if test is not None and isinstance(test, ast.Compare) and norm(test.left) == kv and const_str(test.comparators[0]):
            branches[const_str(test.comparators[0])] = body
    # expression positions per kind from the schema
    want = {}
    for kind, m in sch.unions['Expression'].items():
        if m.type == 'Expression':
            want[kind] = [f"{p}['{kind}']"]
        elif m.type in sch.structs:
            pos = []
            for k, mm in sch.structs[m.type].items():
                if mm.type == 'Expression':
                    pos.append(f"{p}['{kind}']['{k}']")
            if pos:
                want[kind] = pos
    for kind, positions in want.items():
        body = branches.get(kind)
        if body is None:
            chk.bad('C18.X', mod, f.name, f"kind '{kind}' not traversed", f"variable uses inside '{kind}' expressions are not collected: a variable used only there is reported as unused", node=chain)
            continue
        txt = ' ; '.join(norm(s) for s in body)
        for pos in positions:
            arr = pos.endswith("['args']")
            hit = (f'{f.name}({pos},' in txt) or (arr and f'in {pos}' in txt and f'{f.name}(' in txt)
            if hit:
                chk.ok('C18.X', f'use collector visits {pos}')
            else:
                chk.bad('C18.X', mod, f.name, f'{pos} not visited', f'the use collector does not visit {pos}: variables used only in that position are reported as unused / used-before-assignment is missed', node=body[0])
    fb = branches.get('function', [])
    if any(f"uses[{p}['function']['name']]" in norm(s) for s in ast.walk(ast.Module(body=fb, type_ignores=[])) if isinstance(s, ast.Assign)):
        chk.ok('C18.X', "a function node's name counts as a variable use (functions are variables)")
    else:
        chk.bad('C18.X', mod, f.name, 'function name not counted as a use', "the name of a called function must count as a use: a local holding a function value is otherwise reported as unused", node=chain)
    vb = branches.get('variable', [])
    if any(f"uses[{p}['variable']]" in norm(s) for s in ast.walk(ast.Module(body=vb, type_ignores=[])) if isinstance(s, ast.Assign)):
        chk.ok('C18.X', 'variable nodes are recorded as uses')
    else:
        chk.bad('C18.X', mod, f.name, 'variable uses not recorded', 'variable references must be recorded as uses', node=chain)
    # statement level
    g = mod.func('_get_variable_assignments_and_uses', 'C18.X')
    gtxt = ' ; '.join(norm(s) for s in walk_no_nested(g) if isinstance(s, (ast.Expr, ast.Assign)))
    for pos in ("statement['expr']['expr']", "statement['jump']['expr']", "statement['return']['expr']"):
        if f'{f.name}({pos},' in gtxt:
            chk.ok('C18.X', f'statement walker visits {pos}')
        else:
            chk.bad('C18.X', mod, g.name, f'{pos} not visited', f'variable uses in {pos} are not collected', node=g)
    # pointless expression
    h = mod.func('_is_pointless_expression', 'C18.X')
    hp = h.args.args[0].arg
    hchain = next((s for s in h.body if isinstance(s, ast.If)), None)
    hb = {}
    for test, body in if_chain(hchain):
        if test is not None and isinstance(test, ast.Compare) and const_str(test.comparators[0]):
            hb[const_str(test.comparators[0])] = body
    fn = hb.get('function')
    if fn and len(fn) == 1 and norm(fn[0]) == 'return False':
        chk.ok('C18.X', 'pointless test: a function call is never pointless')
    else:
        chk.bad('C18.X', mod, h.name, "'function' branch", 'an expression statement that is a function call has effects and must never be reported as pointless', node=h)
    for kind, positions in (('binary', [f"{hp}['binary']['left']", f"{hp}['binary']['right']"]), ('unary', [f"{hp}['unary']['expr']"]), ('group', [f"{hp}['group']"])):
        body = hb.get(kind)
        txt = norm(body[0]) if body else ''
        calls = [norm(c.args[0]) for s in (body or []) for c in ast.walk(s) if isinstance(c, ast.Call) and call_name(c) == h.name]
        if body and sorted(calls) == sorted(positions) and (' and ' in txt or len(positions) == 1):
            chk.ok('C18.X', f"pointless test recurses into {', '.join(positions)}" + (' (both must be pointless)' if kind == 'binary' else ''))
        else:
            chk.bad('C18.X', mod, h.name, f"'{kind}': inspects {calls}",
                    f"for a {kind} node the pointless test must inspect {positions} (all of them): with {calls} a statement whose other operand calls a function is reported as pointless "
                    f"although deleting it changes the run", node=body[0] if body else h)
    tail = h.body[-1]
    if isinstance(tail, ast.Return) and norm(tail.value) == 'True':
        chk.ok('C18.X', 'literals and variable reads are pointless')


def check_label_scopes(chk):
    mod = chk.repo.module('model')
    func = mod.func('lint_script', 'C18.L')
    loops = [s for s in func.body if isinstance(s, ast.For) and "['statements']" in norm(s.iter)]
    if len(loops) != 1:
        raise Unrecognised('C18.L', 'global statement loop of lint_script not found', mod.rel)
    gloop = loops[0]
    # function branch
    fbranch = None
    for s in gloop.body:
        if isinstance(s, ast.If):
            for test, body in if_chain(s):
                if test is not None and "== 'function'" in norm(test):
                    fbranch = body
    if fbranch is None:
        raise Unrecognised('C18.L', "function branch of lint_script's statement loop not found", mod.rel)
    floops = [s for s in fbranch if isinstance(s, ast.For) and "['function']['statements']" in norm(s.iter) and 'enumerate' in norm(s.iter)]
    if len(floops) != 1:
        raise Unrecognised('C18.L', 'function statement loop not found', mod.rel)
    floop = floops[0]

    def tables(loop):
        """(defined table, used table) written inside a statement loop: X[<label>] = ix"""
        d = u = None
        for n in ast.walk(loop):
            if isinstance(n, ast.Assign) and isinstance(n.targets[0], ast.Subscript) and isinstance(n.targets[0].value, ast.Name):
                key = norm(n.targets[0].slice)
                if "['jump']['label']" in key:
                    u = n.targets[0].value.id
                elif 'label' in key:
                    d = n.targets[0].value.id
        return d, u
    fd, fu = tables(floop)
    # global tables: written in gloop but not inside the function branch
    gd = gu = None
    for n in ast.walk(gloop):
        if isinstance(n, ast.Assign) and isinstance(n.targets[0], ast.Subscript) and isinstance(n.targets[0].value, ast.Name) and not _in(n, fbranch):
            key = norm(n.targets[0].slice)
            if "['jump']['label']" in key:
                gu = n.targets[0].value.id
            elif 'label' in key:
                gd = n.targets[0].value.id
    if not all((fd, fu, gd, gu)):
        raise Unrecognised('C18.L', f'label tables not identified ({fd}, {fu}, {gd}, {gu})', mod.rel)
    if {fd, fu} & {gd, gu}:
        chk.bad('C18.L', mod, 'lint_script', f'tables {fd}/{fu} shared with the global scope', 'function labels and global labels are collected in the same table: scopes are pooled', node=floop)
    # per-function freshness: the function tables are (re)created inside the function branch
    for t in (fd, fu):
        inits = [s for s in ast.walk(func) if isinstance(s, ast.Assign) and norm(s.targets[0]) == t and isinstance(s.value, (ast.Dict, ast.Call))]
        inside = [s for s in inits if _in(s, fbranch)]
        if inits and inside and len(inits) == len(inside):
            chk.ok('C18.L', f'{t} is created afresh for every function statement (one label scope per function body, as the runtime searches)')
        else:
            chk.bad('C18.L', mod, 'lint_script', f'{t} is not created per function',
                    f'the label table {t} is created once and shared by all functions: a jump in one function to a label defined only in another is not reported as unknown (it raises '
                    f'"Unknown jump label" at run time), and the same label in two functions is reported as a redefinition', node=inits[0] if inits else floop)
    for t in (gd, gu):
        inits = [s for s in func.body if isinstance(s, ast.Assign) and norm(s.targets[0]) == t]
        if len(inits) == 1:
            chk.ok('C18.L', f'{t}: one table for the global statement list')
        else:
            chk.bad('C18.L', mod, 'lint_script', f'{t} initialisation', f'the global label table {t} must be created once before the statement loop', node=func)
    # unknown / unused / redefinition formulas
    txt_loops = [s for s in ast.walk(func) if isinstance(s, ast.For)]
    for d, u, scope in ((fd, fu, 'function'), (gd, gu, 'global')):
        unused = [l for l in txt_loops if d in norm(l.iter) and any(f'not in {u}' in norm(x.test) for x in ast.walk(l) if isinstance(x, ast.If)) and 'Unused' in norm(l)]
        unknown = [l for l in txt_loops if u in norm(l.iter) and any(f'not in {d}' in norm(x.test) for x in ast.walk(l) if isinstance(x, ast.If)) and 'Unknown' in norm(l)]
        if len(unused) == 1 and len(unknown) == 1:
            chk.ok('C18.L', f'{scope} scope: unused = defined - used, unknown = used - defined')
        else:
            setform = [l for l in txt_loops if (d in norm(l.iter) and u in norm(l.iter))]
            if setform:
                chk.ok('C18.L', f'{scope} scope: unused/unknown computed by set difference of the two tables', trivial=True)
            else:
                chk.bad('C18.L', mod, 'lint_script', f'{scope}: unused/unknown label formulas', f'{scope} scope: unused labels must be defined - used and unknown labels used - defined', node=func)
    for d, scope, loop in ((fd, 'function', floop), (gd, 'global', gloop)):
        redef = [x for x in ast.walk(loop) if isinstance(x, ast.If) and norm(x.test).endswith(f' in {d}') and 'Redefinition' in norm(ast.Module(body=x.body, type_ignores=[]))
                 and (scope == 'function' or not _in(x, fbranch))]
        if redef and any(isinstance(s, ast.Assign) and norm(s.targets[0]).startswith(d + '[') for s in redef[0].orelse):
            chk.ok('C18.L', f'{scope} scope: a label is a redefinition iff the name is already defined in this list')
        else:
            chk.bad('C18.L', mod, 'lint_script', f'{scope}: redefinition test', f'{scope} scope: redefinition must be reported exactly for a second definition in the same list', node=loop)


def check_order(chk):
    mod = chk.repo.module('model')
    func = mod.func('lint_script', 'C18.O')
    n = 0
    for loop in ast.walk(func):
        if not isinstance(loop, ast.For):
            continue
        emits = any(isinstance(c, ast.Call) and isinstance(c.func, ast.Attribute) and c.func.attr == 'append' and 'warnings' in norm(c.func.value) for c in ast.walk(loop))
        if not emits:
            continue
        n += 1
        it = loop.iter
        txt = norm(it)
        if isinstance(it, ast.Call) and call_name(it) == 'sorted':
            chk.ok('C18.O', f'warning loop over {txt[:60]} (sorted)')
        elif isinstance(it, ast.Call) and call_name(it) == 'enumerate':
            chk.ok('C18.O', f'warning loop over {txt[:60]} (model order)')
        elif isinstance(it, ast.Name):
            # a list in model order (e.g. args)
            defs = [norm(a.value) for a in ast.walk(func) if isinstance(a, ast.Assign) and norm(a.targets[0]) == it.id]
            if any('set(' in d or '{' == d[:1] for d in defs):
                chk.bad('C18.O', mod, 'lint_script', f'for ... in {txt}', 'warnings are emitted while iterating a set: the order depends on string hashing and differs between processes', node=loop)
            else:
                chk.ok('C18.O', f'warning loop over {txt[:60]} (list in model order)')
        elif not (any(isinstance(x, ast.BinOp) and isinstance(x.op, (ast.Sub, ast.BitAnd, ast.BitOr, ast.BitXor)) for x in ast.walk(it))
                  or any(isinstance(x, ast.Call) and call_name(x) in ('set', 'frozenset') for x in ast.walk(it)) or any(isinstance(x, (ast.Set, ast.SetComp)) for x in ast.walk(it))):
            if isinstance(it, ast.Call) and (call_name(it) in ('list', 'reversed', 'range', 'zip') or (isinstance(it.func, ast.Attribute) and it.func.attr in ('keys', 'items', 'values'))):
                chk.ok('C18.O', f'warning loop over {txt[:60]} (insertion / model order)')
            else:
                chk.unrec('C18.O', f'warning loop iterates {txt[:60]}: order not classified', mod.rel)
        else:
            chk.bad('C18.O', mod, 'lint_script', f'for ... in {txt[:80]}',
                    f'warnings are emitted while iterating {txt[:60]}, which is neither a list in model order nor sorted(...): with set/dict-view arithmetic the order of the warnings depends on '
                    f'string hashing and differs from one process to the next (same model, different output)', node=loop)
    if n < 6:
        raise Unrecognised('C18.O', f'only {n} warning-emitting loops found', mod.rel)


def check_unused_scope(chk):
    mod = chk.repo.module('model')
    func = mod.func('lint_script', 'C18.S')
    for node in ast.walk(func):
        if isinstance(node, ast.JoinedStr) and ('Unused variable' in norm(node) or 'Unused argument' in norm(node)):
            inside_fn = False
            cur = node
            while cur is not None:
                if isinstance(cur, ast.If) and "== 'function'" in norm(cur.test):
                    inside_fn = True
                cur = getattr(cur, '_parent', None)
            if inside_fn:
                chk.ok('C18.S', f'{norm(node)[:50]} is issued only inside the function branch (function-local names)')
            else:
                chk.bad('C18.S', mod, 'lint_script', norm(node)[:80], 'an unused-variable warning is issued for a global: globals are visible to includes and the host, renaming them changes behaviour', node=node)


def run(chk):
    chk.rule('C18.M', 'lint does not modify the model (effect analysis, shared with C08.M)', floor=10)
    chk.rule('C18.K', 'optional members of model nodes are read under a membership test or .get (lint never raises)', floor=5)
    chk.rule('C18.X', 'use collection and pointless test visit every expression position', floor=14)
    chk.rule('C18.L', 'labels collected per statement list with fresh tables per function; unknown/unused/redefinition formulas', floor=8)
    chk.rule('C18.O', 'warning order is deterministic (sorted or model order)', floor=6)
    chk.rule('C18.S', 'unused warnings only for function-local names', floor=2)
    chk.assumptions += ['models are schema-valid; dict iteration follows insertion order (CPython >= 3.7)']
    sch = schema_mod.load(chk.repo.module('model'), 'BARE_SCRIPT_TYPES', 'C18.K')
    chk.guard('C18.M', c08.check_immutability, chk, ('model',), 'C18.M')
    chk.guard('C18.K', check_optional_keys, chk, sch)
    chk.guard('C18.X', check_traversal, chk, sch)
    chk.guard('C18.L', check_label_scopes, chk)
    chk.guard('C18.O', check_order, chk)
    chk.guard('C18.S', check_unused_scope, chk)
