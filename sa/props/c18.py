"""C18 - lint is pure, never fails, and its warnings are semantically justified."""
import ast

from ..core import Unrecognised, norm, call_name, walk_no_nested, const_str, subscript_path, if_chain
from .. import schema as schema_mod
from . import c08

EXPLANATION = (
    'C18.M (purity): the model-immutability effect analysis of C08.M applied to everything reachable from lint_script in '
    'model.py; accumulators are locals; no module-level state is written. C18.K (never raises): path typing with the '
    'schema read by E5 - every subscript x[k] on a model node names a required member of the node\'s struct, or the '
    'access is dominated by a test `k in x`; optional members are read with .get or under such a test. C18.X: the '
    'use-collector visits every schema position where an Expression can occur (statement expr, jump expr, return '
    'expr, function args, binary left AND right, unary expr, group) and counts a function node\'s name as a use; '
    '_is_pointless_expression is false for any node containing a function call and recurses through both operands of '
    'binary nodes, unary and group. C18.L: labels and jump targets are collected per statement list - the global list '
    'and each function body separately, with fresh tables created per function - which is exactly the scope of the '
    'runtime search (C08.L); unknown = used - defined, unused = defined - used, redefinition = second definition in the '
    'same list; likewise function redefinition and duplicate arguments. C18.O: every loop that emits warnings iterates '
    'a list in model order or sorted(keys): same model, same warnings, in the same order, in every process. C18.S: '
    'unused-variable/argument warnings are issued only for names assigned in a function body or its parameters. '
    'Behaviour preservation of acting on a warning for every run needs an execution oracle and is not decided.')
ENUMERATION = 'model-derived mutation candidates, key accesses on model nodes, expression positions of the schema, label tables, warning loops'


def optional_paths(sch):
    """set of (struct, member) that are optional"""
    return {(t, k) for t, ms in sch.structs.items() for k, m in ms.items() if m.optional}


def check_optional_keys(chk, sch, modules=('model', 'runtime'), rule='C18.K'):
    all_members = {}
    for tname, members in list(sch.structs.items()) + list(sch.unions.items()):
        for k, m in members.items():
            all_members.setdefault(k, []).append((tname, m))

    def types_of_chain(keys):
        """possible (container type, member) for the LAST key of a chain"""
        first = keys[0]
        cands = [(t, m) for t, m in all_members.get(first, [])]
        for k in keys[1:]:
            nxt = []
            for _t, m in cands:
                ms = sch.members(m.type)
                if ms and k in ms:
                    nxt.append((m.type, ms[k]))
            cands = nxt
        return cands
    n = 0
    for modname in modules:
        mod = chk.repo.module(modname)
        for fname, func in mod.funcs.items():
            names = c08.model_derived_names(func)
            if not names:
                continue
            for node in walk_no_nested(func):
                if not (isinstance(node, ast.Subscript) and const_str(node.slice) is not None and isinstance(node.ctx, ast.Load)):
                    continue
                base, keys = subscript_path(node)
                if not isinstance(base, ast.Name) or base.id not in names or not keys:
                    continue
                cands = types_of_chain(keys)
                if not cands:
                    continue   # unknown path: C07.R reports it
                if not all(m.optional for _t, m in cands if not isinstance(m, type(None))):
                    continue   # required member (or a union key: exactly one key exists - the dispatch guarantees which)
                if all(t in sch.unions for t, _m in cands):
                    continue
                n += 1
                k = keys[-1]
                holder = norm(node.value)
                if _guarded(node, k, holder):
                    chk.ok(rule, f'{modname}.{fname}: {norm(node)[:60]} is read under a `{k!r} in ...` test')
                else:
                    chk.bad(rule, mod, fname, norm(node)[:80],
                            f"{norm(node)[:60]}: member '{k}' is optional in the schema ({', '.join(sorted({t for t, _m in cands}))}) and is read without a `'{k}' in ...` test or .get(): "
                            f"a schema-valid model that omits it raises KeyError", node=node)
    if n < 5:
        raise Unrecognised(rule, f'only {n} optional-member accesses found', None)


def _guarded(node, key, holder):
    """is the Subscript dominated by `'key' in holder` (enclosing if / and-clause / conditional expression / comprehension-if)?"""
    want = f"'{key}' in {holder}"
    child = node
    cur = getattr(node, '_parent', None)
    while cur is not None:
        if isinstance(cur, ast.If) and _in(child, cur.body) and want in _conjuncts(cur.test):
            return True
        if isinstance(cur, ast.IfExp) and child is cur.body and want in _conjuncts(cur.test):
            return True
        if isinstance(cur, ast.BoolOp) and isinstance(cur.op, ast.And):
            ix = next((i for i, v in enumerate(cur.values) if v is child or any(x is child for x in ast.walk(v))), None)
            if ix is not None and any(want in _conjuncts(v) for v in cur.values[:ix]):
                return True
        if isinstance(cur, ast.BoolOp) and isinstance(cur.op, ast.Or):
            ix = next((i for i, v in enumerate(cur.values) if v is child or any(x is child for x in ast.walk(v))), None)
            if ix is not None and any(norm(v) == f"'{key}' not in {holder}" for v in cur.values[:ix]):
                return True
        if isinstance(cur, ast.If) and _in(child, cur.orelse):
            # else-branch of `'key' not in holder`
            if f"'{key}' not in {holder}" in _conjuncts(cur.test):
                return True
        if isinstance(cur, (ast.FunctionDef,)):
            break
        child = cur
        cur = getattr(cur, '_parent', None)
    return False


def _in(node, stmts):
    return any(node is s or any(node is x for x in ast.walk(s)) for s in stmts)


def _conjuncts(test):
    if isinstance(test, ast.BoolOp) and isinstance(test.op, ast.And):
        out = []
        for v in test.values:
            out += _conjuncts(v)
        return out
    return [norm(test)]


def _expr_models(depth):
    """expression models up to the given depth; leaves: variables x/y, number, string, calls with / without args"""
    leaves = [{'variable': 'x'}, {'variable': 'y'}, {'number': 1.0}, {'string': 's'}, {'function': {'name': 'f'}}, {'function': {'name': 'g', 'args': []}}]
    if depth == 0:
        return leaves
    sub = _expr_models(depth - 1)
    pick = sub[:3] + sub[4:5] + sub[-2:]
    out = list(leaves)
    for a in pick:
        out.append({'unary': {'op': '-', 'expr': a}})
        out.append({'group': a})
        out.append({'function': {'name': 'h', 'args': [a]}})
        for b in pick:
            out.append({'binary': {'op': '+', 'left': a, 'right': b}})
            out.append({'function': {'name': 'k', 'args': [a, {'number': 2.0}, b]}})
    return out


def _names(e):
    (k, v), = e.items()
    if k == 'variable':
        return {v}
    if k in ('number', 'string'):
        return set()
    if k == 'group':
        return _names(v)
    if k == 'unary':
        return _names(v['expr'])
    if k == 'binary':
        return _names(v['left']) | _names(v['right'])
    out = {v['name']}
    for a in v.get('args', []):
        out |= _names(a)
    return out


def _has_call(e):
    (k, v), = e.items()
    if k == 'function':
        return True
    if k == 'group':
        return _has_call(v)
    if k == 'unary':
        return _has_call(v['expr'])
    if k == 'binary':
        return _has_call(v['left']) or _has_call(v['right'])
    return False


def check_optional_truthiness(chk, sch):
    """C18.K: whether an optional member is present must be tested by membership / `is None`, not by the truthiness of .get(): the empty string is a legal name"""
    mod = chk.repo.module('model')
    optional = {k for _t, members in sch.structs.items() for k, m in members.items() if getattr(m, 'optional', False)}
    n = 0
    for fname, func in mod.funcs.items():
        names = c08.model_derived_names(func)
        for node in walk_no_nested(func):
            tests = []
            if isinstance(node, (ast.If, ast.While, ast.IfExp)):
                tests = [node.test]
            for t in tests:
                for c in ast.walk(t):
                    operand = None
                    if isinstance(c, ast.UnaryOp) and isinstance(c.op, ast.Not):
                        operand = c.operand
                    elif isinstance(c, ast.BoolOp):
                        for v in c.values:
                            if isinstance(v, ast.Call):
                                operand = v
                    elif c is t and isinstance(c, ast.Call):
                        operand = c
                    if isinstance(operand, ast.Call) and isinstance(operand.func, ast.Attribute) and operand.func.attr == 'get' and operand.args and const_str(operand.args[0]) in ('name',):
                        n += 1
                        chk.bad('C18.K', mod, fname, norm(operand)[:80],
                                f'the presence of the optional member {const_str(operand.args[0])!r} is decided by the truthiness of {norm(operand)}: an assignment to the variable named "" (a legal '
                                f'name) is then treated as a plain expression statement and reported as pointless, although deleting it changes the globals', node=operand)
    if n == 0:
        chk.ok('C18.K', "no optional `name` member is tested by truthiness (presence is a membership test)")


def check_traversal(chk, sch):
    """C18.X by abstract execution: the use collector, the statement walker and the pointless-expression test applied to every expression model of depth <= 2"""
    from ..absint import Interp, ADict, AList, RaiseSig, reify
    from ..evalsim import build, show
    mod = chk.repo.module('model')
    it = Interp(mod, 'C18.X')
    it.repo = chk.repo
    it.max_depth = 30
    f = mod.func('_get_expression_variable_uses', 'C18.X')
    h = mod.func('_is_pointless_expression', 'C18.X')
    g = mod.func('_get_variable_assignments_and_uses', 'C18.X')
    models = _expr_models(2)
    bad_uses = bad_point = None
    n = 0
    for e in models:
        n += 1
        uses = ADict({})
        it.depth = 0
        try:
            it.call_function(f, [build(e), uses, 7], f)
            got = dict(uses.d)
        except RaiseSig as sig:
            got = f'raises {sig.cls}{sig.args_!r}'
        want = {nm: 7 for nm in _names(e)}
        if got != want and bad_uses is None:
            bad_uses = (e, got, want)
        it.depth = 0
        try:
            p = it.call_function(h, [build(e)], h)
        except RaiseSig as sig:
            p = f'raises {sig.cls}'
        if p != (not _has_call(e)) and bad_point is None:
            bad_point = (e, p)
    if bad_uses:
        e, got, want = bad_uses
        chk.bad('C18.X', mod, f.name, f'uses of `{show(e)}`: {got}', f'the use collector applied to `{show(e)}` records {got}; the names used are {sorted(want)} (variables and called function names, including those inside '
                f'arguments, operands and groups): a name used only in the missed position is reported as unused, or a use before assignment is missed', node=f)
    else:
        chk.ok('C18.X', f'use collector: {n} expression models of depth <= 2 - exactly the variable and function names of the expression are recorded, at the statement index, first use kept', count=n)
    if bad_point:
        e, p = bad_point
        chk.bad('C18.X', mod, h.name, f'pointless(`{show(e)}`) = {p}', f'the pointless-expression test applied to `{show(e)}` gives {p}; an expression is pointless exactly when it contains no function call '
                f'(deleting a statement that calls a function changes the run; a call-free expression statement has no effect)', node=h)
    else:
        chk.ok('C18.X', f'pointless test: {n} expression models - pointless iff the expression contains no function call anywhere', count=n)
    # statement walker: assignments (first index kept) and uses in expr / jump / return statements
    X, Y = {'variable': 'x'}, {'function': {'name': 'y', 'args': [{'variable': 'z'}]}}
    stmts = [{'expr': {'name': 'a', 'expr': X}}, {'label': 'L'}, {'jump': {'label': 'L', 'expr': Y}}, {'jump': {'label': 'L'}}, {'return': {'expr': {'variable': 'r'}}}, {'return': {}},
             {'expr': {'name': 'a', 'expr': {'variable': 'a'}}}, {'expr': {'expr': {'variable': 'q'}}}, {'expr': {'name': 'x', 'expr': {'number': 1.0}}}]
    assigns, uses = ADict({}), ADict({})
    it.depth = 0
    try:
        it.call_function(g, [build(stmts), assigns, uses], g)
        got = (dict(assigns.d), dict(uses.d))
    except RaiseSig as sig:
        got = f'raises {sig.cls}{sig.args_!r}'
    want = ({'a': 0, 'x': 8}, {'x': 0, 'y': 2, 'z': 2, 'r': 4, 'a': 6, 'q': 7})
    if got == want:
        chk.ok('C18.X', 'statement walker: first assignment index per name; uses collected from expression, assignment, conditional-jump and return statements (optional members absent: no error)')
    else:
        chk.bad('C18.X', mod, g.name, f'statement walker gives {got}', f'the statement walker applied to a 9-statement list gives (assignments, uses) = {got}; expected {want}', node=g)


def check_label_scopes(chk):
    mod = chk.repo.module('model')
    func = mod.func('lint_script', 'C18.L')
    loops = [s for s in func.body if isinstance(s, ast.For) and "['statements']" in norm(s.iter)]
    if len(loops) != 1:
        raise Unrecognised('C18.L', 'global statement loop of lint_script not found', mod.rel)
    gloop = loops[0]
    # function branch
    fbranch = None
    for s in gloop.body:
        if isinstance(s, ast.If):
            for test, body in if_chain(s):
                if test is not None and "== 'function'" in norm(test):
                    fbranch = body
    if fbranch is None:
        raise Unrecognised('C18.L', "function branch of lint_script's statement loop not found", mod.rel)
    floops = [s for s in fbranch if isinstance(s, ast.For) and "['function']['statements']" in norm(s.iter) and 'enumerate' in norm(s.iter)]
    if len(floops) != 1:
        raise Unrecognised('C18.L', 'function statement loop not found', mod.rel)
    floop = floops[0]

    def tables(loop):
        """(defined table, used table) written inside a statement loop: X[<label>] = ix"""
        d = u = None
        for n in ast.walk(loop):
            if isinstance(n, ast.Assign) and isinstance(n.targets[0], ast.Subscript) and isinstance(n.targets[0].value, ast.Name):
                key = norm(n.targets[0].slice)
                if "['jump']['label']" in key:
                    u = n.targets[0].value.id
                elif 'label' in key:
                    d = n.targets[0].value.id
        return d, u
    fd, fu = tables(floop)
    # global tables: written in gloop but not inside the function branch
    gd = gu = None
    for n in ast.walk(gloop):
        if isinstance(n, ast.Assign) and isinstance(n.targets[0], ast.Subscript) and isinstance(n.targets[0].value, ast.Name) and not _in(n, fbranch):
            key = norm(n.targets[0].slice)
            if "['jump']['label']" in key:
                gu = n.targets[0].value.id
            elif 'label' in key:
                gd = n.targets[0].value.id
    if not all((fd, fu, gd, gu)):
        raise Unrecognised('C18.L', f'label tables not identified ({fd}, {fu}, {gd}, {gu})', mod.rel)
    if {fd, fu} & {gd, gu}:
        chk.bad('C18.L', mod, 'lint_script', f'tables {fd}/{fu} shared with the global scope', 'function labels and global labels are collected in the same table: scopes are pooled', node=floop)
    # per-function freshness: the function tables are (re)created inside the function branch
    for t in (fd, fu):
        inits = [s for s in ast.walk(func) if isinstance(s, ast.Assign) and norm(s.targets[0]) == t and isinstance(s.value, (ast.Dict, ast.Call))]
        inside = [s for s in inits if _in(s, fbranch)]
        if inits and inside and len(inits) == len(inside):
            chk.ok('C18.L', f'{t} is created afresh for every function statement (one label scope per function body, as the runtime searches)')
        else:
            chk.bad('C18.L', mod, 'lint_script', f'{t} is not created per function',
                    f'the label table {t} is created once and shared by all functions: a jump in one function to a label defined only in another is not reported as unknown (it raises '
                    f'"Unknown jump label" at run time), and the same label in two functions is reported as a redefinition', node=inits[0] if inits else floop)
    for t in (gd, gu):
        inits = [s for s in func.body if isinstance(s, ast.Assign) and norm(s.targets[0]) == t]
        if len(inits) == 1:
            chk.ok('C18.L', f'{t}: one table for the global statement list')
        else:
            chk.bad('C18.L', mod, 'lint_script', f'{t} initialisation', f'the global label table {t} must be created once before the statement loop', node=func)
    # unknown / unused / redefinition formulas
    txt_loops = [s for s in ast.walk(func) if isinstance(s, ast.For)]
    for d, u, scope in ((fd, fu, 'function'), (gd, gu, 'global')):
        unused = [l for l in txt_loops if d in norm(l.iter) and any(f'not in {u}' in norm(x.test) for x in ast.walk(l) if isinstance(x, ast.If)) and 'Unused' in norm(l)]
        unknown = [l for l in txt_loops if u in norm(l.iter) and any(f'not in {d}' in norm(x.test) for x in ast.walk(l) if isinstance(x, ast.If)) and 'Unknown' in norm(l)]
        if len(unused) == 1 and len(unknown) == 1:
            chk.ok('C18.L', f'{scope} scope: unused = defined - used, unknown = used - defined')
        else:
            setform = [l for l in txt_loops if (d in norm(l.iter) and u in norm(l.iter))]
            if setform:
                chk.ok('C18.L', f'{scope} scope: unused/unknown computed by set difference of the two tables', trivial=True)
            else:
                chk.bad('C18.L', mod, 'lint_script', f'{scope}: unused/unknown label formulas', f'{scope} scope: unused labels must be defined - used and unknown labels used - defined', node=func)
    for d, scope, loop in ((fd, 'function', floop), (gd, 'global', gloop)):
        redef = [x for x in ast.walk(loop) if isinstance(x, ast.If) and norm(x.test).endswith(f' in {d}') and 'Redefinition' in norm(ast.Module(body=x.body, type_ignores=[]))
                 and (scope == 'function' or not _in(x, fbranch))]
        if redef and any(isinstance(s, ast.Assign) and norm(s.targets[0]).startswith(d + '[') for s in redef[0].orelse):
            chk.ok('C18.L', f'{scope} scope: a label is a redefinition iff the name is already defined in this list')
        else:
            chk.bad('C18.L', mod, 'lint_script', f'{scope}: redefinition test', f'{scope} scope: redefinition must be reported exactly for a second definition in the same list', node=loop)


def check_order(chk):
    mod = chk.repo.module('model')
    func = mod.func('lint_script', 'C18.O')
    n = 0
    for loop in ast.walk(func):
        if not isinstance(loop, ast.For):
            continue
        emits = any(isinstance(c, ast.Call) and isinstance(c.func, ast.Attribute) and c.func.attr == 'append' and 'warnings' in norm(c.func.value) for c in ast.walk(loop))
        if not emits:
            continue
        n += 1
        it = loop.iter
        txt = norm(it)
        if isinstance(it, ast.Call) and call_name(it) == 'sorted':
            chk.ok('C18.O', f'warning loop over {txt[:60]} (sorted)')
        elif isinstance(it, ast.Call) and call_name(it) == 'enumerate':
            chk.ok('C18.O', f'warning loop over {txt[:60]} (model order)')
        elif isinstance(it, ast.Name):
            # a list in model order (e.g. args)
            defs = [norm(a.value) for a in ast.walk(func) if isinstance(a, ast.Assign) and norm(a.targets[0]) == it.id]
            if any('set(' in d or '{' == d[:1] for d in defs):
                chk.bad('C18.O', mod, 'lint_script', f'for ... in {txt}', 'warnings are emitted while iterating a set: the order depends on string hashing and differs between processes', node=loop)
            else:
                chk.ok('C18.O', f'warning loop over {txt[:60]} (list in model order)')
        elif not (any(isinstance(x, ast.BinOp) and isinstance(x.op, (ast.Sub, ast.BitAnd, ast.BitOr, ast.BitXor)) for x in ast.walk(it))
                  or any(isinstance(x, ast.Call) and call_name(x) in ('set', 'frozenset') for x in ast.walk(it)) or any(isinstance(x, (ast.Set, ast.SetComp)) for x in ast.walk(it))):
            if isinstance(it, ast.Call) and (call_name(it) in ('list', 'reversed', 'range', 'zip') or (isinstance(it.func, ast.Attribute) and it.func.attr in ('keys', 'items', 'values'))):
                chk.ok('C18.O', f'warning loop over {txt[:60]} (insertion / model order)')
            else:
                chk.unrec('C18.O', f'warning loop iterates {txt[:60]}: order not classified', mod.rel)
        else:
            chk.bad('C18.O', mod, 'lint_script', f'for ... in {txt[:80]}',
                    f'warnings are emitted while iterating {txt[:60]}, which is neither a list in model order nor sorted(...): with set/dict-view arithmetic the order of the warnings depends on '
                    f'string hashing and differs from one process to the next (same model, different output)', node=loop)
    if n < 6:
        raise Unrecognised('C18.O', f'only {n} warning-emitting loops found', mod.rel)


def check_unused_scope(chk):
    mod = chk.repo.module('model')
    func = mod.func('lint_script', 'C18.S')
    for node in ast.walk(func):
        if isinstance(node, ast.JoinedStr) and ('Unused variable' in norm(node) or 'Unused argument' in norm(node)):
            inside_fn = False
            cur = node
            while cur is not None:
                if isinstance(cur, ast.If) and "== 'function'" in norm(cur.test):
                    inside_fn = True
                cur = getattr(cur, '_parent', None)
            if inside_fn:
                chk.ok('C18.S', f'{norm(node)[:50]} is issued only inside the function branch (function-local names)')
            else:
                chk.bad('C18.S', mod, 'lint_script', norm(node)[:80], 'an unused-variable warning is issued for a global: globals are visible to includes and the host, renaming them changes behaviour', node=node)


def check_lint_sim(chk, rule='C18.R', kinds=None):
    """lint_script evaluated (E6n) on jump-level models, a lowered structured program and the shipped includes -> True when every model agrees"""
    from .. import lintsim
    cache = getattr(chk, '_lint_sim', None)
    if cache is None:
        cache = chk._lint_sim = lintsim.run_lint(chk.repo, chk.tier, rule)
    n, problems = cache
    if kinds is not None:
        problems = [p for p in problems if p[0] in kinds]
    mod = chk.repo.module('model')
    if problems:
        by = {}
        for k, msg in problems:
            by.setdefault(k, []).append(msg)
        for k, msgs in by.items():
            chk.bad(rule, mod, 'lint_script', f'{k}: {msgs[0][:110]}', f'evaluation of lint_script on {n} models: {msgs[0][:500]} ({len(msgs)} deviations of this kind)', node=mod.funcs.get('lint_script'))
        return False
    chk.ok(rule, f'lint_script evaluated on {n} models (jump-level models with user / duplicate / dangling labels, duplicate functions and arguments, names equal to schema member '
           f'names; a structured program lowered by parse_script; the shipped includes), each linted three times (again, and with the other iteration order of unordered '
           f'collections): no exception, model unchanged, same warnings every time, label / function / argument / unused warnings exactly those the model justifies, no label '
           f'warning for lowered structured code, shipped includes lint-clean', count=n * 3)
    return True


def run(chk):
    chk.rule('C18.R', 'lint_script evaluated on concrete models (E6n): never raises, pure, deterministic (also under hash order), warnings = the facts of the model', floor=24)
    lint_ok = chk.guard('C18.R', check_lint_sim, chk)
    chk.rule('C18.M', 'lint does not modify the model (effect analysis, shared with C08.M)', floor=10)
    chk.rule('C18.K', 'optional members of model nodes are read under a membership test or .get (lint never raises)', floor=5)
    chk.rule('C18.X', 'use collection and pointless test visit every expression position', floor=14)
    chk.rule('C18.L', 'labels collected per statement list with fresh tables per function; unknown/unused/redefinition formulas', floor=8)
    chk.rule('C18.O', 'warning order is deterministic (sorted or model order)', floor=6)
    chk.rule('C18.S', 'unused warnings only for function-local names', floor=2)
    chk.assumptions += ['models are schema-valid; dict iteration follows insertion order (CPython >= 3.7)']
    sch = schema_mod.load(chk.repo.module('model'), 'BARE_SCRIPT_TYPES', 'C18.K')
    chk.guard('C18.M', c08.check_immutability, chk, ('model',), 'C18.M')
    # the shape rules below explain a deviation; once the evaluation C18.R decided positively they are advisory read-backs
    run_rule = chk.readback(lint_ok)
    run_rule('C18.K', check_optional_keys, chk, sch)
    run_rule('C18.X', check_traversal, chk, sch)
    run_rule('C18.K', check_optional_truthiness, chk, sch)
    run_rule('C18.L', check_label_scopes, chk)
    run_rule('C18.O', check_order, chk)
    run_rule('C18.S', check_unused_scope, chk)
    if lint_ok:
        for r in ('C18.K', 'C18.X', 'C18.L', 'C18.O', 'C18.S'):
            chk.floors.pop(r, None)
    # "the jumps that can raise Unknown jump label": what a jump does at run time is the runtime's label lookup (shared with C08)
    chk.rule('C08.E', 'shared with C08: abstract execution of the statement loop (label lookup: first label of that name in the current list, index 0 included)')
    chk.rule('C08.L', 'shared with C08: label lookup / cache locality')
    chk.guard('C08.E', c08.check_step, chk)
    chk.rule('C08.F', 'shared with C08: hand-built jump-level models with user labels evaluated whole (label lookup per statement list, also for a function name bound again)')
    models_ok = chk.guard('C08.F', c08.check_models, chk)
    chk.readback(models_ok)('C08.L', c08.check_labels, chk)
