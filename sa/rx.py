"""E4: static analysis of regex constants.

Patterns are parsed with CPython's own regex *parser* (re._parser) into a small tree of our own; no pattern is ever
matched against input as the basis of a verdict.  Provided: named-group facts (optional / literal / min width),
leading/trailing blank tolerance, ordered alternation of literal operators (read from the pattern text because the
sre parser factors common prefixes), position of a group relative to the end of an enclosing span, and a Thompson NFA
over a finite representative alphabet with DFA product for inclusion / emptiness queries (thorough tier).
"""
import re

try:
    import re._parser as sre_parse
    import re._constants as sre_constants
except ImportError:  # pragma: no cover  (Python < 3.11)
    import sre_parse
    import sre_constants

from .core import Unrecognised

MAXREPEAT = sre_constants.MAXREPEAT


class RNode:
    __slots__ = ('kind', 'a', 'b', 'c', 'kids')

    def __init__(self, kind, a=None, b=None, c=None, kids=None):
        self.kind = kind
        self.a = a
        self.b = b
        self.c = c
        self.kids = kids or []

    def __repr__(self):
        extra = ','.join(str(x) for x in (self.a, self.b, self.c) if x is not None)
        return f'{self.kind}({extra}{";" if extra and self.kids else ""}{",".join(map(repr, self.kids))})'


def _conv_seq(items, names):
    return RNode('cat', kids=[_conv(op, av, names) for op, av in items])


def _conv(op, av, names):
    opn = str(op)
    if opn == 'LITERAL':
        return RNode('lit', chr(av))
    if opn == 'NOT_LITERAL':
        return RNode('in', True, [('lit', chr(av))])
    if opn == 'ANY':
        return RNode('any')
    if opn == 'IN':
        negate = False
        items = []
        for iop, iav in av:
            ion = str(iop)
            if ion == 'NEGATE':
                negate = True
            elif ion == 'LITERAL':
                items.append(('lit', chr(iav)))
            elif ion == 'RANGE':
                items.append(('range', chr(iav[0]), chr(iav[1])))
            elif ion == 'CATEGORY':
                items.append(('cat', str(iav)))
            else:
                raise Unrecognised('E4', f'unsupported class item {ion}')
        return RNode('in', negate, items)
    if opn == 'BRANCH':
        return RNode('alt', kids=[_conv_seq(list(alt), names) for alt in av[1]])
    if opn in ('MAX_REPEAT', 'MIN_REPEAT', 'POSSESSIVE_REPEAT'):
        lo, hi, sub = av
        return RNode('rep', lo, hi, opn == 'MAX_REPEAT', kids=[_conv_seq(list(sub), names)])
    if opn == 'SUBPATTERN':
        gid, add_flags, del_flags, sub = av
        return RNode('group', gid, names.get(gid), kids=[_conv_seq(list(sub), names)])
    if opn == 'ATOMIC_GROUP':
        return RNode('group', None, None, kids=[_conv_seq(list(av), names)])
    if opn == 'AT':
        return RNode('at', str(av))
    if opn in ('ASSERT', 'ASSERT_NOT'):
        direction, sub = av
        return RNode('assert', direction, opn == 'ASSERT_NOT', kids=[_conv_seq(list(sub), names)])
    if opn == 'GROUPREF':
        return RNode('backref', av)
    if opn == 'CATEGORY':
        return RNode('in', False, [('cat', str(av))])
    raise Unrecognised('E4', f'unsupported regex construct {opn}')


class Rx:
    def __init__(self, pattern, flags=0, name=None):
        self.pattern = pattern
        self.flags = flags
        self.name = name
        try:
            parsed = sre_parse.parse(pattern, flags)
        except Exception as exc:
            raise Unrecognised('E4', f'regex {name or pattern!r} does not parse: {exc}')
        self.names = {gid: gname for gname, gid in parsed.state.groupdict.items()}
        self.ngroups = parsed.state.groups - 1
        self.tree = _conv_seq(list(parsed), self.names)
        self.multiline = bool(flags & re.M)
        self.dotall = bool(flags & re.S)

    # ---------------------------------------------------------------- generic walks
    def walk(self, node=None):
        node = node or self.tree
        yield node
        for k in node.kids:
            yield from self.walk(k)

    def group_node(self, name_or_index):
        for n in self.walk():
            if n.kind == 'group' and (n.b == name_or_index or n.a == name_or_index):
                return n
        return None

    def group_names(self):
        return [n.b for n in self.walk() if n.kind == 'group' and n.b]

    def _path_to(self, target, node=None, path=None):
        node = node or self.tree
        path = (path or []) + [node]
        if node is target:
            return path
        for k in node.kids:
            r = self._path_to(target, k, path)
            if r:
                return r
        return None

    def group_optional(self, name_or_index):
        """True if the overall match can succeed without this group participating."""
        g = self.group_node(name_or_index)
        if g is None:
            raise Unrecognised('E4', f'group {name_or_index!r} not in regex {self.name or self.pattern!r}')
        path = self._path_to(g)
        for parent, child in zip(path, path[1:]):
            if parent.kind == 'rep' and parent.a == 0:
                return True
            if parent.kind == 'alt' and len(parent.kids) > 1:
                return True
        return False

    @staticmethod
    def min_width(node):
        k = node.kind
        if k in ('lit', 'any', 'in'):
            return 1
        if k in ('at', 'assert', 'backref'):
            return 0
        if k == 'cat':
            return sum(Rx.min_width(x) for x in node.kids)
        if k == 'alt':
            return min(Rx.min_width(x) for x in node.kids)
        if k == 'rep':
            return node.a * Rx.min_width(node.kids[0])
        if k == 'group':
            return Rx.min_width(node.kids[0])
        return 0

    @staticmethod
    def max_width(node):
        k = node.kind
        if k in ('lit', 'any', 'in'):
            return 1
        if k in ('at', 'assert'):
            return 0
        if k == 'backref':
            return MAXREPEAT
        if k == 'cat':
            return min(MAXREPEAT, sum(Rx.max_width(x) for x in node.kids))
        if k == 'alt':
            return max(Rx.max_width(x) for x in node.kids)
        if k == 'rep':
            w = Rx.max_width(node.kids[0])
            if node.b >= MAXREPEAT:
                return MAXREPEAT if w else 0
            return min(MAXREPEAT, node.b * w)
        if k == 'group':
            return Rx.max_width(node.kids[0])
        return 0

    @staticmethod
    def literal_of(node):
        """The single literal string the node always matches, or None."""
        k = node.kind
        if k == 'lit':
            return node.a
        if k == 'cat':
            parts = [Rx.literal_of(x) for x in node.kids]
            return None if any(p is None for p in parts) else ''.join(parts)
        if k == 'group':
            return Rx.literal_of(node.kids[0])
        if k == 'rep' and node.a == node.b == 1:
            return Rx.literal_of(node.kids[0])
        if k == 'alt' and len(node.kids) == 1:
            return Rx.literal_of(node.kids[0])
        return None

    def group_literal(self, name):
        g = self.group_node(name)
        return None if g is None else Rx.literal_of(g)

    def group_nonempty(self, name):
        g = self.group_node(name)
        return g is not None and Rx.min_width(g) >= 1

    # ---------------------------------------------------------------- shape predicates
    @staticmethod
    def is_ws_star(node):
        return node.kind == 'rep' and node.a == 0 and node.b >= MAXREPEAT and Rx._is_space_class(node.kids[0])

    @staticmethod
    def is_ws_plus(node):
        return node.kind == 'rep' and node.a == 1 and node.b >= MAXREPEAT and Rx._is_space_class(node.kids[0])

    @staticmethod
    def _is_space_class(node):
        if node.kind == 'cat' and len(node.kids) == 1:
            node = node.kids[0]
        return node.kind == 'in' and not node.a and node.b == [('cat', 'CATEGORY_SPACE')]

    def top_items(self):
        return list(self.tree.kids)

    def anchored_begin(self):
        items = self.top_items()
        return bool(items) and items[0].kind == 'at' and items[0].a in ('AT_BEGINNING', 'AT_BEGINNING_STRING')

    def anchored_end(self):
        items = self.top_items()
        return bool(items) and items[-1].kind == 'at' and items[-1].a in ('AT_END', 'AT_END_STRING')

    def leading_blank_tolerant(self):
        """After `^`, the pattern accepts any run of blanks before its first non-blank element.  Accepted shapes:
        `^\\s*...`, `^(G\\s*...)...`, `^(G\\s*...)?\\s*...` (optional leading group followed by \\s*)."""
        items = self.top_items()
        if not items or items[0].kind != 'at':
            return False
        return self._leading(items[1:])

    def _leading(self, items):
        if not items:
            return False
        first = items[0]
        if self.is_ws_star(first):
            return True
        if first.kind == 'group':
            return self._leading(first.kids[0].kids if first.kids[0].kind == 'cat' else [first.kids[0]])
        if first.kind == 'rep' and first.a == 0 and first.b == 1:
            inner = first.kids[0]
            inner_items = inner.kids if inner.kind == 'cat' else [inner]
            return self._leading(inner_items) and self._leading(items[1:])
        if first.kind == 'alt':
            return all(self._leading(a.kids if a.kind == 'cat' else [a]) for a in first.kids)
        return False

    def trailing_blank_tolerant(self):
        """Pattern ends `...\\s*$`, or in a greedy dot-run group that reaches `$` (`(?P<expr>.+)$`), possibly with the
        `\\s*` inside a trailing group."""
        items = self.top_items()
        if not items or items[-1].kind != 'at' or items[-1].a not in ('AT_END', 'AT_END_STRING'):
            return False
        return self._trailing(items[:-1])

    def _trailing(self, items):
        if not items:
            return False
        last = items[-1]
        if self.is_ws_star(last):
            return True
        if last.kind == 'rep' and last.kids[0].kind == 'cat' and len(last.kids[0].kids) == 1 and last.kids[0].kids[0].kind == 'any' \
                and last.b >= MAXREPEAT:
            return 'dot-run'
        if last.kind == 'group':
            inner = last.kids[0]
            return self._trailing(inner.kids if inner.kind == 'cat' else [inner])
        if last.kind == 'rep' and last.a == 0 and last.b == 1:
            inner = last.kids[0]
            return self._trailing(inner.kids if inner.kind == 'cat' else [inner]) and self._trailing(items[:-1])
        return False

    # ---------------------------------------------------------------- group position facts (C06.C)
    def suffix_gap(self, group, span=None):
        """Fixed number of characters between the end of `group` and the end of `span` (a group name, or None for the
        whole match up to `$`), ignoring nothing: returns (min_gap, max_gap) over everything that follows `group`
        inside `span`."""
        g = self.group_node(group)
        if g is None:
            raise Unrecognised('E4', f'group {group!r} not in regex {self.name}')
        root = self.tree if span is None else self.group_node(span)
        if root is None:
            raise Unrecognised('E4', f'span group {span!r} not in regex {self.name}')
        path = self._path_to(g, root)
        if not path:
            raise Unrecognised('E4', f'group {group!r} is not inside span {span!r} in regex {self.name}')
        lo = hi = 0
        for parent, child in zip(path, path[1:]):
            if parent.kind == 'cat':
                ix = parent.kids.index(child)
                for sib in parent.kids[ix + 1:]:
                    lo += self.min_width(sib)
                    hi = min(MAXREPEAT, hi + self.max_width(sib))
            elif parent.kind == 'rep' and parent.b > 1:
                hi = MAXREPEAT
        return lo, hi

    def prefix_gap(self, group, span=None):
        """(min, max) number of characters between the start of `span` (None = start of match) and the start of group."""
        g = self.group_node(group)
        root = self.tree if span is None else self.group_node(span)
        if g is None or root is None:
            raise Unrecognised('E4', f'group {group!r}/{span!r} not in regex {self.name}')
        path = self._path_to(g, root)
        lo = hi = 0
        for parent, child in zip(path, path[1:]):
            if parent.kind == 'cat':
                ix = parent.kids.index(child)
                for sib in parent.kids[:ix]:
                    lo += self.min_width(sib)
                    hi = min(MAXREPEAT, hi + self.max_width(sib))
            elif parent.kind == 'rep' and parent.b > 1:
                hi = MAXREPEAT
        return lo, hi

    # ---------------------------------------------------------------- ordered literal alternation (from pattern text)
    def alternation_literals(self):
        """For a pattern whose first capturing group is an alternation of literal operators, return them in the order
        they are *tried* (read from the pattern text, because sre's parser factors common prefixes)."""
        text = self.pattern
        start = None
        depth = 0
        i = 0
        while i < len(text):
            c = text[i]
            if c == '\\':
                i += 2
                continue
            if c == '[':
                j = text.find(']', i + 2)
                i = j + 1 if j > 0 else i + 1
                continue
            if c == '(' and text[i + 1:i + 2] != '?':
                start = i + 1
                break
            i += 1
        if start is None:
            raise Unrecognised('E4', f'no capturing group in {self.name}')
        alts, cur = [], ''
        i = start
        while i < len(text):
            c = text[i]
            if c == '\\':
                cur += text[i + 1]
                i += 2
                continue
            if c == '|':
                alts.append(cur)
                cur = ''
            elif c == ')':
                alts.append(cur)
                return alts
            elif c in '([?*+{.^$':
                raise Unrecognised('E4', f'operator alternation of {self.name} is not a plain list of literals ({c!r})')
            else:
                cur += c
            i += 1
        raise Unrecognised('E4', f'unterminated group in {self.name}')

    # ---------------------------------------------------------------- mandatory single characters
    def mandatory_chars(self):
        """Set of literal characters that occur in every match (top-level concatenation and mandatory sub-nodes)."""
        out = set()

        def rec(node):
            k = node.kind
            if k == 'lit':
                out.add(node.a)
            elif k == 'cat' or k == 'group':
                for x in node.kids:
                    rec(x)
            elif k == 'rep' and node.a >= 1:
                rec(node.kids[0])
            elif k == 'alt':
                sets = []
                for a in node.kids:
                    sub = Rx.__new__(Rx)
                    sub.tree = a
                    sets.append(Rx.mandatory_chars(sub))
                if sets:
                    out.update(set.intersection(*sets))
        rec(self.tree)
        return out


# --------------------------------------------------------------------------- finite automata (thorough tier)

CATEGORY_TESTS = {
    'CATEGORY_DIGIT': lambda c: c.isdigit(),
    'CATEGORY_NOT_DIGIT': lambda c: not c.isdigit(),
    'CATEGORY_SPACE': lambda c: c.isspace(),
    'CATEGORY_NOT_SPACE': lambda c: not c.isspace(),
    'CATEGORY_WORD': lambda c: c.isalnum() or c == '_',
    'CATEGORY_NOT_WORD': lambda c: not (c.isalnum() or c == '_'),
}


def class_matches(node, ch, dotall=False):
    k = node.kind
    if k == 'lit':
        return ch == node.a
    if k == 'any':
        return dotall or ch != '\n'
    if k == 'in':
        hit = False
        for item in node.b:
            if item[0] == 'lit':
                hit = hit or ch == item[1]
            elif item[0] == 'range':
                hit = hit or item[1] <= ch <= item[2]
            elif item[0] == 'cat':
                hit = hit or CATEGORY_TESTS[item[1]](ch)
        return hit != bool(node.a)
    raise Unrecognised('E4', f'class_matches on {k}')


class NFA:
    """Thompson NFA for a regex tree over a finite alphabet (whole-string acceptance).  Anchors: AT_BEGINNING /
    AT_END are epsilon at the ends only (checked structurally by the builder: elsewhere -> Unrecognised unless
    multiline handling is requested by the caller).  Assertions are not supported (Unrecognised)."""

    def __init__(self, alphabet, dotall=False):
        self.alphabet = list(alphabet)
        self.dotall = dotall
        self.eps = {}
        self.trans = {}
        self.n = 0

    def new(self):
        self.n += 1
        return self.n - 1

    def add_eps(self, a, b):
        self.eps.setdefault(a, set()).add(b)

    def add(self, a, ch, b):
        self.trans.setdefault((a, ch), set()).add(b)

    def build(self, node, start):
        k = node.kind
        if k in ('lit', 'any', 'in'):
            end = self.new()
            for ch in self.alphabet:
                if class_matches(node, ch, self.dotall):
                    self.add(start, ch, end)
            return end
        if k == 'cat':
            cur = start
            for x in node.kids:
                cur = self.build(x, cur)
            return cur
        if k == 'group':
            return self.build(node.kids[0], start)
        if k == 'alt':
            end = self.new()
            for x in node.kids:
                s = self.new()
                self.add_eps(start, s)
                self.add_eps(self.build(x, s), end)
            return end
        if k == 'rep':
            lo, hi = node.a, node.b
            cur = start
            for _ in range(lo):
                cur = self.build(node.kids[0], cur)
            if hi >= MAXREPEAT:
                loop = self.new()
                self.add_eps(cur, loop)
                e = self.build(node.kids[0], loop)
                self.add_eps(e, loop)
                return loop
            end = self.new()
            self.add_eps(cur, end)
            for _ in range(hi - lo):
                cur = self.build(node.kids[0], cur)
                self.add_eps(cur, end)
            return end
        if k == 'at':
            return start   # caller guarantees anchors sit at the ends
        raise Unrecognised('E4', f'NFA: unsupported node {k}')

    def closure(self, states):
        stack = list(states)
        seen = set(states)
        while stack:
            s = stack.pop()
            for t in self.eps.get(s, ()):
                if t not in seen:
                    seen.add(t)
                    stack.append(t)
        return frozenset(seen)

    def step(self, states, ch):
        out = set()
        for s in states:
            out |= self.trans.get((s, ch), set())
        return self.closure(out)


class Lang:
    """A regular language over a finite alphabet given by a regex tree (whole-string)."""

    def __init__(self, tree, alphabet, dotall=False):
        self.nfa = NFA(alphabet, dotall)
        s = self.nfa.new()
        self.final = self.nfa.build(tree, s)
        self.start = self.nfa.closure({s})
        self.alphabet = list(alphabet)

    def accepts_state(self, states):
        return self.final in states

    def accepts(self, text):
        st = self.start
        for ch in text:
            st = self.nfa.step(st, ch)
            if not st:
                return False
        return self.final in st


def included(a, b, limit=200000):
    """L(a) subset of L(b)?  Returns (True, None) or (False, counterexample).  Both over the same alphabet."""
    start = (a.start, b.start)
    seen = {start: None}
    queue = [start]
    while queue:
        cur = queue.pop(0)
        sa, sb = cur
        if a.accepts_state(sa) and not b.accepts_state(sb):
            word = []
            node = cur
            while seen[node] is not None:
                node, ch = seen[node]
                word.append(ch)
            return False, ''.join(reversed(word))
        for ch in a.alphabet:
            na = a.nfa.step(sa, ch)
            if not na:
                continue
            nb = b.nfa.step(sb, ch)
            nxt = (na, nb)
            if nxt not in seen:
                if len(seen) > limit:
                    raise Unrecognised('E4', 'automata product too large')
                seen[nxt] = (cur, ch)
                queue.append(nxt)
    return True, None


def parse_tree(pattern, flags=0):
    return Rx(pattern, flags).tree
