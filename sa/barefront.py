"""E9: an independent BareScript front-end for the shipped .bare sources (never executes anything).

Physical -> logical lines (comments, blank lines, continuation), statement classification, block matching,
Pratt expression parser with the documented precedence ladder, and per-scope def/use facts.  Written from the
language definition, not derived from the repository's parser, so it doubles as a cross-check of it.
"""
import re


class BareSyntaxError(Exception):
    def __init__(self, msg, line_no, text=''):
        super().__init__(f'{msg} (line {line_no}): {text[:80]}')
        self.msg = msg
        self.line_no = line_no
        self.text = text


IDENT = r'[A-Za-z_]\w*'
R_COMMENT = re.compile(r'^\s*(?:#.*)?$')
R_CONT = re.compile(r'\\\s*$')
STATEMENTS = [
    ('function', re.compile(rf'^\s*(?P<async>async\s+)?function\s+(?P<name>{IDENT})\s*\(\s*(?P<args>{IDENT}(?:\s*,\s*{IDENT})*)?(?P<last>\s*\.\.\.)?\s*\)\s*:\s*$')),
    ('endfunction', re.compile(r'^\s*endfunction\s*$')),
    ('if', re.compile(r'^\s*if\s+(?P<expr>.+?)\s*:\s*$')),
    ('elif', re.compile(r'^\s*elif\s+(?P<expr>.+?)\s*:\s*$')),
    ('else', re.compile(r'^\s*else\s*:\s*$')),
    ('endif', re.compile(r'^\s*endif\s*$')),
    ('for', re.compile(rf'^\s*for\s+(?P<value>{IDENT})(?:\s*,\s*(?P<index>{IDENT}))?\s+in\s+(?P<expr>.+?)\s*:\s*$')),
    ('endfor', re.compile(r'^\s*endfor\s*$')),
    ('while', re.compile(r'^\s*while\s+(?P<expr>.+?)\s*:\s*$')),
    ('endwhile', re.compile(r'^\s*endwhile\s*$')),
    ('break', re.compile(r'^\s*break\s*$')),
    ('continue', re.compile(r'^\s*continue\s*$')),
    ('jumpif', re.compile(rf'^\s*jumpif\s*\((?P<expr>.+)\)\s+(?P<name>{IDENT})\s*$')),
    ('jump', re.compile(rf'^\s*jump\s+(?P<name>{IDENT})\s*$')),
    ('return', re.compile(r'^\s*return(?:\s+(?P<expr>.+?))?\s*$')),
    ('include', re.compile(r"^\s*include\s+(?:'(?P<url>(?:\\'|[^'])*)'|<(?P<sys>[^>]*)>)\s*$")),
    ('label', re.compile(rf'^\s*(?P<name>{IDENT})\s*:\s*$')),
    ('assign', re.compile(rf'^\s*(?P<name>{IDENT})\s*=(?!=)\s*(?P<expr>.+?)\s*$')),
]

PRECEDENCE = {'||': 1, '&&': 2, '==': 3, '!=': 3, '<=': 4, '<': 4, '>=': 4, '>': 4, '+': 5, '-': 5, '*': 6, '/': 6, '%': 6, '**': 7}
TOKEN = re.compile(r"""\s*(?:
    (?P<num>\d+(?:\.\d*)?(?:e[+-]\d+)?)
  | '(?P<s1>(?:\\\\|\\'|[^'])*)'
  | "(?P<s2>(?:\\\\|\\"|[^"])*)"
  | (?P<id>[A-Za-z_]\w*)
  | \[\s*(?P<bid>(?:\\\]|[^\]])+?)\s*\]
  | (?P<op>\*\*|\|\||&&|==|!=|<=|>=|[-+*/%<>!(),])
)""", re.X)


def logical_lines(text):
    """[(first_line_no, text)] with comments/blank lines removed and continuations joined by one blank"""
    out = []
    pending = []
    start = None
    for no, raw in enumerate(re.split(r'\r?\n', text), 1):
        if R_COMMENT.match(raw):
            continue
        stripped = R_CONT.sub('', raw)
        if stripped != raw:
            if not pending:
                start = no
                pending.append(stripped.rstrip())
            else:
                pending.append(stripped.strip())
            continue
        if pending:
            pending.append(raw.strip())
            out.append((start, ' '.join(pending)))
            pending = []
        else:
            out.append((no, raw))
    if pending:
        raise BareSyntaxError('line continuation pending at end of file', start, ' '.join(pending))
    return out


R_PLUS_NUMBER = re.compile(r'\s*\+(\d+(?:\.\d*)?(?:e[+-]\d+)?)')


def tokenize(text, line_no):
    pos = 0
    toks = []
    while pos < len(text):
        if text[pos:].strip() == '':
            break
        # a number literal may carry a plus sign (there is no unary plus operator): only where an operand is expected
        if not toks or toks[-1] == ('op', '(') or toks[-1] == ('op', ',') or (toks[-1][0] == 'op' and toks[-1][1] not in (')',)):
            mp = R_PLUS_NUMBER.match(text, pos)
            if mp:
                pos = mp.end()
                toks.append(('num', float(mp.group(1))))
                continue
        m = TOKEN.match(text, pos)
        if not m:
            raise BareSyntaxError('unexpected character in expression', line_no, text[pos:])
        pos = m.end()
        if m.group('num') is not None:
            toks.append(('num', float(m.group('num'))))
        elif m.group('s1') is not None:
            toks.append(('str', re.sub(r"\\([\\'])", r'\1', m.group('s1'))))
        elif m.group('s2') is not None:
            toks.append(('str', re.sub(r'\\([\\"])', r'\1', m.group('s2'))))
        elif m.group('id') is not None:
            toks.append(('id', m.group('id')))
        elif m.group('bid') is not None:
            toks.append(('id', re.sub(r'\\([\\\]])', r'\1', m.group('bid'))))
        else:
            toks.append(('op', m.group('op')))
    return toks


class ExprParser:
    def __init__(self, text, line_no):
        self.toks = tokenize(text, line_no)
        self.i = 0
        self.line_no = line_no
        self.text = text

    def peek(self):
        return self.toks[self.i] if self.i < len(self.toks) else (None, None)

    def next(self):
        t = self.peek()
        self.i += 1
        return t

    def parse(self):
        e = self.binary(0)
        if self.i != len(self.toks):
            raise BareSyntaxError('trailing text after expression', self.line_no, self.text)
        return e

    def binary(self, min_prec):
        left = self.unary()
        while True:
            k, v = self.peek()
            if k == 'op' and v in PRECEDENCE and PRECEDENCE[v] >= min_prec:
                self.next()
                right = self.binary(PRECEDENCE[v] + 1)      # left associative
                left = ('bin', v, left, right)
            else:
                return left

    def unary(self):
        k, v = self.peek()
        if k == 'op' and v in ('!', '-'):
            self.next()
            return ('un', v, self.unary())
        if k == 'op' and v == '(':
            self.next()
            e = self.binary(0)
            if self.next() != ('op', ')'):
                raise BareSyntaxError('unmatched parenthesis', self.line_no, self.text)
            return ('group', e)
        if k == 'num':
            self.next()
            return ('num', v)
        if k == 'str':
            self.next()
            return ('str', v)
        if k == 'id':
            self.next()
            if self.peek() == ('op', '('):
                self.next()
                args = []
                if self.peek() == ('op', ')'):
                    self.next()
                    return ('call', v, args)
                while True:
                    args.append(self.binary(0))
                    t = self.next()
                    if t == ('op', ')'):
                        return ('call', v, args)
                    if t != ('op', ','):
                        raise BareSyntaxError('expected , or ) in argument list', self.line_no, self.text)
            return ('var', v)
        raise BareSyntaxError('expression expected', self.line_no, self.text)


def parse_expr(text, line_no):
    return ExprParser(text, line_no).parse()


def walk_expr(e):
    yield e
    k = e[0]
    if k == 'call':
        for a in e[2]:
            yield from walk_expr(a)
    elif k == 'bin':
        yield from walk_expr(e[2])
        yield from walk_expr(e[3])
    elif k == 'un':
        yield from walk_expr(e[2])
    elif k == 'group':
        yield from walk_expr(e[1])


def expr_names(e):
    return {x[1] for x in walk_expr(e) if x[0] == 'var'} | {x[1] for x in walk_expr(e) if x[0] == 'call'}


def show(e):
    k = e[0]
    if k == 'num':
        return repr(e[1]).rstrip('0').rstrip('.') if e[1] == int(e[1]) else repr(e[1])
    if k == 'str':
        return repr(e[1])
    if k == 'var':
        return e[1]
    if k == 'call':
        return f'{e[1]}({", ".join(show(a) for a in e[2])})'
    if k == 'bin':
        return f'{show(e[2])} {e[1]} {show(e[3])}'
    if k == 'un':
        return f'{e[1]}{show(e[2])}'
    return f'({show(e[1])})'


class Stmt:
    def __init__(self, kind, line_no, text, **kw):
        self.kind = kind
        self.line_no = line_no
        self.text = text
        self.expr = kw.get('expr')
        self.name = kw.get('name')
        self.body = kw.get('body')          # nested statements (while/for/function)
        self.branches = kw.get('branches')  # if: [(cond or None, [stmts])]
        self.extra = kw

    def __repr__(self):
        return f'<{self.kind}@{self.line_no}>'


def parse_program(text):
    """-> list of top-level Stmt (functions contain their bodies)"""
    lines = logical_lines(text)
    pos = [0]

    def classify(line_no, ln):
        for kind, rx in STATEMENTS:
            m = rx.match(ln)
            if m:
                return kind, m
        return 'expr', None

    def block(terminators, in_function, loop_depth):
        out = []
        while pos[0] < len(lines):
            line_no, ln = lines[pos[0]]
            kind, m = classify(line_no, ln)
            if kind in terminators:
                return out, kind, m, line_no
            if kind in ('endfunction', 'endif', 'endwhile', 'endfor', 'elif', 'else'):
                raise BareSyntaxError(f'unexpected {kind}', line_no, ln)
            pos[0] += 1
            if kind == 'function':
                if in_function:
                    raise BareSyntaxError('nested function definition', line_no, ln)
                body, term, _m, _no = block({'endfunction'}, True, 0)
                if term != 'endfunction':
                    raise BareSyntaxError('missing endfunction', line_no, ln)
                pos[0] += 1
                args = re.split(r'\s*,\s*', m.group('args')) if m.group('args') else []
                out.append(Stmt('function', line_no, ln, name=m.group('name'), body=body, args=args, last=bool(m.group('last')), is_async=bool(m.group('async'))))
            elif kind == 'if':
                branches = []
                cond = parse_expr(m.group('expr'), line_no)
                while True:
                    body, term, m2, no2 = block({'elif', 'else', 'endif'}, in_function, loop_depth)
                    branches.append((cond, body))
                    if term is None:
                        raise BareSyntaxError('missing endif', line_no, ln)
                    pos[0] += 1
                    if term == 'endif':
                        break
                    if term == 'elif':
                        if cond is None:
                            raise BareSyntaxError('elif after else', no2, '')
                        cond = parse_expr(m2.group('expr'), no2)
                    else:
                        if cond is None:
                            raise BareSyntaxError('second else', no2, '')
                        cond = None
                out.append(Stmt('if', line_no, ln, branches=branches))
            elif kind in ('while', 'for'):
                cond = parse_expr(m.group('expr'), line_no)
                body, term, _m, _no = block({'end' + kind}, in_function, loop_depth + 1)
                if term != 'end' + kind:
                    raise BareSyntaxError(f'missing end{kind}', line_no, ln)
                pos[0] += 1
                out.append(Stmt(kind, line_no, ln, expr=cond, body=body, value=m.groupdict().get('value'), index=m.groupdict().get('index')))
            elif kind in ('break', 'continue'):
                if loop_depth == 0:
                    raise BareSyntaxError(f'{kind} outside of a loop of the same function', line_no, ln)
                out.append(Stmt(kind, line_no, ln))
            elif kind == 'assign':
                out.append(Stmt('assign', line_no, ln, name=m.group('name'), expr=parse_expr(m.group('expr'), line_no)))
            elif kind == 'return':
                out.append(Stmt('return', line_no, ln, expr=parse_expr(m.group('expr'), line_no) if m.group('expr') else None))
            elif kind == 'jumpif':
                out.append(Stmt('jump', line_no, ln, name=m.group('name'), expr=parse_expr(m.group('expr'), line_no)))
            elif kind == 'jump':
                out.append(Stmt('jump', line_no, ln, name=m.group('name')))
            elif kind == 'label':
                out.append(Stmt('label', line_no, ln, name=m.group('name')))
            elif kind == 'include':
                out.append(Stmt('include', line_no, ln, name=m.group('url') if m.group('url') is not None else m.group('sys'), system=m.group('sys') is not None))
            else:
                out.append(Stmt('expr', line_no, ln, expr=parse_expr(ln, line_no)))
        return out, None, None, None
    prog, term, _m, no = block(set(), False, 0)
    return prog


def walk_stmts(stmts):
    for s in stmts:
        yield s
        if s.kind == 'if':
            for _c, body in s.branches:
                yield from walk_stmts(body)
        elif s.kind in ('while', 'for'):
            yield from walk_stmts(s.body)


def stmt_exprs(s):
    """expressions evaluated by the statement itself (not nested bodies)"""
    if s.kind == 'if':
        return [c for c, _b in s.branches if c is not None]
    if s.expr is not None:
        return [s.expr]
    return []
