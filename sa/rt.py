"""Shared recognisers for runtime.py (evaluate_expression sections, operator dispatch, statement loop)."""
import ast

from .core import Unrecognised, call_name, const_str, norm, walk_no_nested, if_chain, compares_const

ARITH = ('+', '-', '*', '/', '%', '**')
REL = ('==', '!=', '<=', '<', '>=', '>')
LOGIC = ('&&', '||')
ALL_BINARY = ARITH + REL + LOGIC


class EvalExpr:
    """Structure of runtime.evaluate_expression."""

    def __init__(self, repo, rule='rt'):
        self.repo = repo
        self.mod = repo.module('runtime')
        self.func = self.mod.func('evaluate_expression', rule)
        self.rule = rule
        self.params = [a.arg for a in self.func.args.args]
        self.key_var = None
        self.sections = {}     # kind -> list of stmts (body of `if expr_key == kind`)
        self.section_nodes = {}
        self.tail = []         # statements after the last section (group by elimination)
        self._find_sections()

    def _find_sections(self):
        body = self.func.body
        # key var: `expr_key, = expr.keys()` or next(iter(expr...))
        for s in body:
            if isinstance(s, ast.Assign):
                tgt = s.targets[0]
                name = None
                if isinstance(tgt, ast.Tuple) and len(tgt.elts) == 1 and isinstance(tgt.elts[0], ast.Name):
                    name = tgt.elts[0].id
                elif isinstance(tgt, ast.Name) and isinstance(s.value, ast.Call) and call_name(s.value) == 'next':
                    name = tgt.id
                if name and 'keys' in norm(s.value) or (name and call_name(s.value) == 'next'):
                    self.key_var = name
                    break
        if not self.key_var:
            raise Unrecognised(self.rule, 'expression kind variable (expr_key, = expr.keys()) not found', self.mod.rel)
        last_ix = -1
        for ix, s in enumerate(body):
            if isinstance(s, ast.If):
                for test, stmts in if_chain(s):
                    kind = compares_const(test, self.key_var) if test is not None else None
                    if kind is not None:
                        self.sections[kind] = stmts
                        self.section_nodes[kind] = s
                        last_ix = ix
                    elif test is None and self.sections:
                        self.sections[None] = stmts
                        last_ix = ix
        if last_ix < 0:
            raise Unrecognised(self.rule, 'no `if expr_key == ...` sections found', self.mod.rel)
        self.tail = body[last_ix + 1:]

    # ---- binary section
    def binary(self):
        stmts = self.sections.get('binary')
        if stmts is None:
            raise Unrecognised(self.rule, "no section for 'binary' nodes", self.mod.rel)
        return BinarySection(self, stmts)


class BinarySection:
    def __init__(self, ee, stmts):
        self.ee = ee
        self.stmts = stmts
        self.mod = ee.mod
        rule = ee.rule
        self.op_var = self.left = self.right = None
        self.left_stmt = self.right_stmt = None
        fname = ee.func.name
        for s in stmts:
            if isinstance(s, ast.Assign) and len(s.targets) == 1 and isinstance(s.targets[0], ast.Name):
                v = s.value
                t = norm(v)
                if t.endswith("['binary']['op']"):
                    self.op_var = s.targets[0].id
                elif isinstance(v, ast.Call) and call_name(v) == fname and v.args:
                    a = norm(v.args[0])
                    if a.endswith("['binary']['left']"):
                        self.left, self.left_stmt = s.targets[0].id, s
                    elif a.endswith("['binary']['right']"):
                        self.right, self.right_stmt = s.targets[0].id, s
        if not (self.op_var and self.left and self.right):
            raise Unrecognised(rule, 'binary section: operator / left / right locals not found', self.mod.rel)
        # dispatch chains: every If (at any depth, not nested functions) whose chain compares op_var with constants
        self.branches = {}      # op -> list of stmts
        self.branch_test = {}
        self.else_branch = None
        self.chains = []
        for node in self._walk_stmts(stmts):
            if isinstance(node, ast.If):
                par = getattr(node, '_parent', None)
                if isinstance(par, ast.If) and node in par.orelse and len(par.orelse) == 1 and node.col_offset == par.col_offset:
                    continue
                chain = if_chain(node)
                ops = [compares_const(t, self.op_var) if t is not None else None for t, _b in chain]
                if any(o in ALL_BINARY for o in ops):
                    self.chains.append(node)
                    for o, (t, b) in zip(ops, chain):
                        if t is None:
                            self.else_branch = b
                        elif o is not None:
                            self.branches[o] = b
                            self.branch_test[o] = t
                        else:
                            raise Unrecognised(rule, f'binary dispatch chain has a non-operator test: {norm(t)}', self.mod.rel)
        if not self.branches:
            raise Unrecognised(rule, 'binary operator dispatch chain not found', self.mod.rel)

    def _walk_stmts(self, stmts):
        for s in stmts:
            yield s
            for field in ('body', 'orelse', 'finalbody'):
                sub = getattr(s, field, None)
                if isinstance(sub, list) and sub and isinstance(sub[0], ast.stmt):
                    yield from self._walk_stmts(sub)
            if isinstance(s, ast.Try):
                for h in s.handlers:
                    yield from self._walk_stmts(h.body)

    def branch(self, op, all_ops):
        """statements handling operator `op` (the else branch stands for the single operator not named)"""
        if op in self.branches:
            return self.branches[op]
        missing = [o for o in all_ops if o not in self.branches]
        if self.else_branch is not None and missing == [op]:
            return self.else_branch
        return None


def helper_loop(repo, rule='rt'):
    """(mod, func, while_node) of the statement loop in _execute_script_helper."""
    mod = repo.module('runtime')
    func = mod.func('_execute_script_helper', rule)
    loops = [n for n in func.body if isinstance(n, (ast.While, ast.For))]
    if len(loops) != 1:
        raise Unrecognised(rule, f'_execute_script_helper: expected one statement loop, found {len(loops)}', mod.rel)
    return mod, func, loops[0]


def statement_dispatch(repo, rule='rt'):
    """{'expr': stmts, 'jump': stmts, ...}, key_var, loop for the statement loop."""
    mod, func, loop = helper_loop(repo, rule)
    key_var = None
    for s in loop.body:
        if isinstance(s, ast.Assign) and isinstance(s.targets[0], ast.Name) and call_name(s.value) == 'next' and s.value.args and call_name(s.value.args[0]) == 'iter':
            key_var = s.targets[0].id
    if key_var is None:
        for s in loop.body:
            if isinstance(s, ast.Assign) and isinstance(s.targets[0], (ast.Tuple, ast.List)) and len(s.targets[0].elts) == 1 and isinstance(s.targets[0].elts[0], ast.Name):
                key_var = s.targets[0].elts[0].id
    if key_var is None:
        raise Unrecognised(rule, 'statement kind variable not found in the statement loop', mod.rel)
    sections = {}
    chain_node = None
    for s in loop.body:
        if isinstance(s, ast.If):
            chain = if_chain(s)
            kinds = [compares_const(t, key_var) if t is not None else None for t, _b in chain]
            if any(k for k in kinds):
                chain_node = s
                for k, (t, b) in zip(kinds, chain):
                    if t is None:
                        sections[None] = b
                    elif k is None:
                        raise Unrecognised(rule, f'statement dispatch has a non-kind test {norm(t)}', mod.rel)
                    else:
                        sections[k] = b
    if not sections:
        raise Unrecognised(rule, 'statement dispatch chain not found', mod.rel)
    return mod, func, loop, key_var, sections, chain_node
