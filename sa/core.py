"""E1 + E10: source loader, literal tables, findings/evidence protocol.

Pure standard library.  Nothing from the analysed repository is imported or
executed: modules are read as text and parsed with ``ast``.
"""
import ast
import hashlib
import json
import os
import re
import sys
import time

VERIF = os.path.dirname(os.path.dirname(os.path.abspath(__file__)))
REPO = os.environ.get('VERIF_REPO', '/repo')
PKG_REL = 'src/bare_script'
EVIDENCE_DIR = os.environ.get('VERIF_EVIDENCE_DIR', os.path.join(VERIF, 'evidence'))
KNOWN_FINDINGS = os.path.join(VERIF, 'known_findings.json')


class Unrecognised(Exception):
    """The construct a rule is about cannot be found / is written in a form the recogniser does not understand."""

    def __init__(self, rule, what, where=None):
        super().__init__(f'{rule}: {what}' + (f' [{where}]' if where else ''))
        self.rule = rule
        self.what = what
        self.where = where


def norm(node):
    """Normalised source text of an AST node (no line numbers, collapsed blanks)."""
    if node is None:
        return 'None'
    if isinstance(node, str):
        return ' '.join(node.split())
    try:
        return ' '.join(ast.unparse(node).split())
    except Exception:  # pragma: no cover
        return f'<{type(node).__name__}>'


def short(text, n=110):
    text = ' '.join(str(text).split())
    return text if len(text) <= n else text[:n - 3] + '...'


def set_parents(tree):
    for node in ast.walk(tree):
        for child in ast.iter_child_nodes(node):
            child._parent = node
    tree._parent = None
    return tree


def parents(node):
    node = getattr(node, '_parent', None)
    while node is not None:
        yield node
        node = getattr(node, '_parent', None)


def enclosing_function(node):
    for p in parents(node):
        if isinstance(p, (ast.FunctionDef, ast.AsyncFunctionDef, ast.Lambda)):
            return p
    return None


def walk_no_nested(node):
    """ast.walk that does not descend into nested function/lambda/class bodies (the node itself is yielded)."""
    stack = [node]
    first = True
    while stack:
        n = stack.pop()
        if not first and isinstance(n, (ast.FunctionDef, ast.AsyncFunctionDef, ast.Lambda, ast.ClassDef)):
            continue
        first = False
        yield n
        stack.extend(reversed(list(ast.iter_child_nodes(n))))


class Regex:
    """A regex constant found in the source (pattern text + flags), never matched against anything here."""

    def __init__(self, pattern, flags=0, name=None):
        self.pattern = pattern
        self.flags = flags
        self.name = name

    def __repr__(self):
        return f'Regex({self.name or ""}:{self.pattern!r}{", flags=%d" % self.flags if self.flags else ""})'


class SchemaText:
    def __init__(self, text, name=None):
        self.text = text
        self.name = name


class Opaque:
    """A value the literal evaluator does not model."""

    def __init__(self, node):
        self.node = node

    def __repr__(self):
        return f'Opaque({norm(self.node)})'


_RE_FLAGS = {'I': re.I, 'IGNORECASE': re.I, 'M': re.M, 'MULTILINE': re.M, 'S': re.S, 'DOTALL': re.S,
             'X': re.X, 'VERBOSE': re.X, 'A': re.A, 'ASCII': re.A}


def _strip_annotations(tree):
    tr = _StripAnnotations()
    tr.typing_names = {(a.asname or a.name) for n in tree.body if isinstance(n, ast.ImportFrom) and n.module == 'typing' for a in n.names if a.name == 'cast'}
    return ast.fix_missing_locations(tr.visit(tree))


class _StripAnnotations(ast.NodeTransformer):
    """Type annotations have no effect on what the code computes: `x: T = v` is read as `x = v`, a bare `x: T` as `pass`, parameter and return annotations are dropped.
    Annotated assignments directly in a class body are kept (NamedTuple / dataclass fields are declared by them).  A `typing.cast(T, v)` call is read as `v`."""

    def visit_ClassDef(self, node):
        new_body = []
        for s in node.body:
            if isinstance(s, ast.AnnAssign):
                if s.value is not None:
                    s.value = self.visit(s.value)
                new_body.append(s)
            else:
                new_body.append(self.visit(s))
        node.body = new_body
        return node

    def visit_AnnAssign(self, node):
        if node.value is None:
            return ast.copy_location(ast.Pass(), node)
        new = ast.Assign(targets=[node.target], value=self.visit(node.value), type_comment=None)
        return ast.copy_location(new, node)

    def _strip_args(self, node):
        a = node.args
        for arg in list(a.posonlyargs) + list(a.args) + list(a.kwonlyargs) + ([a.vararg] if a.vararg else []) + ([a.kwarg] if a.kwarg else []):
            arg.annotation = None
        node.returns = None

    def visit_FunctionDef(self, node):
        self._strip_args(node)
        self.generic_visit(node)
        return node

    visit_AsyncFunctionDef = visit_FunctionDef

    def visit_Call(self, node):
        self.generic_visit(node)
        f = node.func
        name = (f.id if f.id in self.typing_names else None) if isinstance(f, ast.Name) else \
            (f.attr if isinstance(f, ast.Attribute) and isinstance(f.value, ast.Name) and f.value.id == 'typing' else None)
        if name == 'cast' and len(node.args) == 2 and not node.keywords:
            return node.args[1]
        return node


class Module:
    def __init__(self, repo, name, path):
        self.repo = repo
        self.name = name
        self.path = path
        self.rel = os.path.relpath(path, repo.root)
        with open(path, 'r', encoding='utf-8') as fh:
            self.src = fh.read()
        self.sha256 = hashlib.sha256(self.src.encode('utf-8')).hexdigest()
        self.tree = set_parents(_strip_annotations(ast.parse(self.src, filename=path)))
        self.funcs = {}
        self.classes = {}
        self.assigns = {}
        self.imports = {}
        for node in ast.walk(self.tree):
            if isinstance(node, (ast.FunctionDef, ast.AsyncFunctionDef)):
                node._module = self
        for node in self.tree.body:
            if isinstance(node, (ast.FunctionDef, ast.AsyncFunctionDef)):
                self.funcs[node.name] = node
            elif isinstance(node, ast.ClassDef):
                self.classes[node.name] = node
                for sub in node.body:
                    if isinstance(sub, ast.FunctionDef):
                        self.funcs[f'{node.name}.{sub.name}'] = sub
            elif isinstance(node, ast.Assign):
                for tgt in node.targets:
                    if isinstance(tgt, ast.Name):
                        self.assigns.setdefault(tgt.id, []).append(node.value)
            elif isinstance(node, ast.ImportFrom):
                for alias in node.names:
                    self.imports[alias.asname or alias.name] = (('.' * node.level) + (node.module or ''), alias.name)
            elif isinstance(node, ast.Import):
                for alias in node.names:
                    self.imports[alias.asname or alias.name.split('.')[0]] = (alias.name, None)

    def func(self, name, rule='E1'):
        if name not in self.funcs:
            # a function moved to another module of the package and imported back under the same name
            seen, mod, nm = set(), self, name
            while nm not in mod.funcs and nm in mod.imports and (mod.name, nm) not in seen:
                seen.add((mod.name, nm))
                src, orig = mod.imports[nm]
                other = self.repo.resolve_module(src) if orig is not None else None
                if other is None:
                    break
                mod, nm = other, orig
            if nm in mod.funcs:
                return mod.funcs[nm]
            raise Unrecognised(rule, f'function {name} not found', self.rel)
        return self.funcs[name]

    def const_node(self, name, rule='E1'):
        vals = self.assigns.get(name)
        if not vals:
            raise Unrecognised(rule, f'module-level constant {name} not found', self.rel)
        if len(vals) > 1:
            raise Unrecognised(rule, f'module-level constant {name} assigned {len(vals)} times', self.rel)
        return vals[0]

    def const(self, name, rule='E1'):
        return self.lit(self.const_node(name, rule), name)

    def lit(self, node, name=None, depth=0):
        """Literal evaluation of the *table* constructs used by the repository."""
        if depth > 20:
            return Opaque(node)
        if isinstance(node, ast.Constant):
            return node.value
        if isinstance(node, ast.Dict):
            out = {}
            for k, v in zip(node.keys, node.values):
                if k is None:
                    return Opaque(node)
                kk = self.lit(k, None, depth + 1)
                if isinstance(kk, (Opaque, dict, list, set)):
                    return Opaque(node)
                out[kk] = self.lit(v, None, depth + 1)
            return out
        if isinstance(node, ast.List):
            return [self.lit(e, None, depth + 1) for e in node.elts]
        if isinstance(node, ast.Tuple):
            return tuple(self.lit(e, None, depth + 1) for e in node.elts)
        if isinstance(node, ast.Set):
            vals = [self.lit(e, None, depth + 1) for e in node.elts]
            try:
                return set(vals)
            except TypeError:
                return Opaque(node)
        if isinstance(node, ast.UnaryOp) and isinstance(node.op, ast.USub):
            v = self.lit(node.operand, None, depth + 1)
            return -v if isinstance(v, (int, float)) else Opaque(node)
        if isinstance(node, ast.BinOp) and isinstance(node.op, (ast.Add, ast.BitOr)):
            a = self.lit(node.left, None, depth + 1)
            b = self.lit(node.right, None, depth + 1)
            if isinstance(node.op, ast.Add) and isinstance(a, str) and isinstance(b, str):
                return a + b
            if isinstance(node.op, ast.BitOr) and isinstance(a, int) and isinstance(b, int):
                return a | b
            return Opaque(node)
        if isinstance(node, ast.JoinedStr):
            parts = []
            for v in node.values:
                if isinstance(v, ast.Constant):
                    parts.append(str(v.value))
                elif isinstance(v, ast.FormattedValue) and v.format_spec is None and v.conversion == -1:
                    env = getattr(self, '_lit_env', None) or {}
                    if isinstance(v.value, ast.Name) and v.value.id in env:
                        inner = env[v.value.id]
                    else:
                        inner = self.lit(v.value, None, depth + 1)
                    if isinstance(inner, (str, int)) and not isinstance(inner, bool):
                        parts.append(str(inner))
                    else:
                        return Opaque(node)
                else:
                    return Opaque(node)
            return ''.join(parts)
        if isinstance(node, ast.Name):
            if node.id in (getattr(self, '_lit_env', None) or {}):
                return self._lit_env[node.id]
            if node.id in self.assigns and len(self.assigns[node.id]) == 1:
                return self.lit(self.assigns[node.id][0], node.id, depth + 1)
            if node.id in self.imports:
                modname, orig = self.imports[node.id]
                other = self.repo.resolve_module(modname)
                if other is not None and orig in other.assigns and len(other.assigns[orig]) == 1:
                    return other.lit(other.assigns[orig][0], orig, depth + 1)
            return Opaque(node)
        if isinstance(node, ast.Attribute) and isinstance(node.value, ast.Name) and node.value.id == 're' and node.attr in _RE_FLAGS:
            return int(_RE_FLAGS[node.attr])
        if isinstance(node, ast.Call):
            fn = node.func
            if isinstance(fn, ast.Name) and fn.id == 'set' and not node.args and not node.keywords:
                return set()
            if isinstance(fn, ast.Name) and fn.id in ('frozenset', 'set', 'list', 'tuple') and len(node.args) == 1 and not node.keywords:
                inner = self.lit(node.args[0], None, depth + 1)
                if isinstance(inner, (list, tuple, set, frozenset)):
                    return {'frozenset': frozenset, 'set': set, 'list': list, 'tuple': tuple}[fn.id](inner)
                return Opaque(node)
            if isinstance(fn, ast.Name) and fn.id == 'value_args_model' and len(node.args) == 1:
                return self.lit(node.args[0], None, depth + 1)
            if isinstance(fn, ast.Attribute) and isinstance(fn.value, ast.Name) and fn.value.id == 're' and fn.attr == 'compile' and node.args:
                pat = self.lit(node.args[0], None, depth + 1)
                flags = 0
                if len(node.args) > 1:
                    flags = self.lit(node.args[1], None, depth + 1)
                for kw in node.keywords:
                    if kw.arg == 'flags':
                        flags = self.lit(kw.value, None, depth + 1)
                if isinstance(pat, str) and isinstance(flags, int):
                    return Regex(pat, flags, name)
                return Opaque(node)
            if isinstance(fn, ast.Name) and fn.id in self.funcs and not node.keywords and depth < 6:
                # a module-level factory whose body is a single `return <expr>` (e.g. a helper that compiles a statement regex): inline it with constant arguments
                f = self.funcs[fn.id]
                body = [s for s in f.body if not (isinstance(s, ast.Expr) and isinstance(s.value, ast.Constant))]
                params = [a.arg for a in f.args.args]
                if len(body) == 1 and isinstance(body[0], ast.Return) and body[0].value is not None and len(params) == len(node.args):
                    vals = [self.lit(a, None, depth + 1) for a in node.args]
                    if all(isinstance(v, (str, int)) for v in vals):
                        old_env = getattr(self, '_lit_env', None)
                        self._lit_env = dict(zip(params, vals))
                        try:
                            return self.lit(body[0].value, name, depth + 1)
                        finally:
                            self._lit_env = old_env
            if isinstance(fn, ast.Name) and fn.id == 'parse_schema_markdown' and node.args:
                txt = self.lit(node.args[0], None, depth + 1)
                if isinstance(txt, str):
                    return SchemaText(txt, name)
            return Opaque(node)
        return Opaque(node)

    def regexes(self):
        """All module-level regex constants, in source order: name -> Regex.  A regex that the module only ever applies with .match() / .fullmatch()
        is anchored at the start by the method itself: its pattern is normalised to start with ^ (so `^\\s*if` and `\\s*if` used with match() are the same regex)."""
        if getattr(self, '_regex_cache', None) is not None:
            return self._regex_cache
        out = {}
        for name, vals in self.assigns.items():
            if len(vals) == 1:
                v = self.lit(vals[0], name)
                if isinstance(v, Regex):
                    out[name] = v
        uses = {}
        for n in ast.walk(self.tree):
            if isinstance(n, ast.Name) and n.id in out and isinstance(n.ctx, ast.Load):
                par = getattr(n, '_parent', None)
                if isinstance(par, ast.Attribute) and par.value is n:
                    uses.setdefault(n.id, set()).add(par.attr)
                else:
                    uses.setdefault(n.id, set()).add('<value>')
        for name, rg in out.items():
            u = uses.get(name, set())
            if u and u <= {'match', 'fullmatch'} and not rg.pattern.startswith('^') and not (rg.flags & re.M):
                out[name] = Regex('^' + rg.pattern, rg.flags, name)
                out[name].implicit_anchor = True
        self._regex_cache = out
        return out


class Repo:
    def __init__(self, root=None):
        self.root = root or REPO
        self.pkg = os.path.join(self.root, PKG_REL)
        self._modules = {}
        self.consulted = {}
        if not os.path.isdir(self.pkg):
            raise Unrecognised('E1', f'package directory {self.pkg} not found')

    def module(self, name):
        if name not in self._modules:
            path = os.path.join(self.pkg, name + '.py')
            if not os.path.isfile(path):
                raise Unrecognised('E1', f'module {name}.py not found', path)
            try:
                self._modules[name] = Module(self, name, path)
            except SyntaxError as exc:
                raise Unrecognised('E1', f'module {name}.py does not parse: {exc}', path)
            self.consulted[self._modules[name].rel] = self._modules[name].sha256
        return self._modules[name]

    def resolve_module(self, modname):
        """'.value' / 'bare_script.value' -> Module or None."""
        base = modname.lstrip('.')
        if base.startswith('bare_script.'):
            base = base[len('bare_script.'):]
        if modname.startswith('.') or modname.startswith('bare_script'):
            if base and os.path.isfile(os.path.join(self.pkg, base + '.py')):
                return self.module(base)
        return None

    def all_module_names(self):
        return sorted(f[:-3] for f in os.listdir(self.pkg) if f.endswith('.py') and not f.startswith('__'))

    def text_file(self, rel):
        path = os.path.join(self.root, rel)
        with open(path, 'r', encoding='utf-8') as fh:
            txt = fh.read()
        self.consulted[rel] = hashlib.sha256(txt.encode('utf-8')).hexdigest()
        return txt

    def resolve_function(self, mod, name):
        """Resolve a called bare name in module `mod` to (Module, FunctionDef) or None."""
        if name in mod.funcs:
            return mod, mod.funcs[name]
        if name in mod.imports:
            modname, orig = mod.imports[name]
            other = self.resolve_module(modname)
            hops = 0
            # a re-export (the other module imports the name from a third module of the package) is followed to the definition
            while other is not None and orig is not None and orig not in other.funcs and orig in other.imports and hops < 4:
                modname2, orig2 = other.imports[orig]
                other, orig, hops = self.resolve_module(modname2), orig2, hops + 1
            if other is not None and orig in other.funcs:
                return other, other.funcs[orig]
        return None


# --------------------------------------------------------------------------- findings / evidence

class Finding:
    def __init__(self, prop, rule, file, func, construct, what, line=None, detail=None):
        self.prop = prop
        self.rule = rule
        self.file = file
        self.func = func
        self.construct = short(construct, 160)
        self.what = what
        self.line = line
        self.detail = detail or {}

    @property
    def key(self):
        return f'{self.rule}|{os.path.basename(self.file or "")}|{self.func or ""}|{self.construct}'

    def as_dict(self):
        return {'property': self.prop, 'rule': self.rule, 'key': self.key, 'file': self.file, 'function': self.func,
                'line': self.line, 'construct': self.construct, 'what': self.what, 'detail': self.detail}


class Check:
    """Collects rule instances for one property and implements the verdict protocol of DESIGN 3."""
    last_code = 2

    def __init__(self, prop, tier='quick', repo=None):
        self.prop = prop
        self.tier = tier
        self.repo = repo or Repo()
        self.t0 = time.time()
        self.instances = []      # (rule, where, verdict, detail)
        self.findings = []
        self.unrecognised = []
        self.notes = []
        self.floors = {}
        self.rules_doc = {}
        self.assumptions = []
        self.extra = {}

    # -- rule bookkeeping
    def rule(self, rule, doc, floor=None):
        self.rules_doc[rule] = doc
        if floor is not None:
            self.floors[rule] = floor

    def ok(self, rule, where, detail=None, trivial=False, count=1):
        """count > 1: one instance line standing for `count` evaluated cases (abstract runs, enumerated chains ...)"""
        self.instances.append({'rule': rule, 'instance': short(where, 200), 'verdict': 'OK', 'trivial': trivial,
                               **({'detail': detail} if detail else {}), **({'count': count} if count != 1 else {})})

    def bad(self, rule, mod, func, construct, what, node=None, detail=None):
        file = mod.rel if isinstance(mod, Module) else mod
        line = getattr(node, 'lineno', None) if node is not None else None
        if not isinstance(construct, str):
            construct = norm(construct)
        f = Finding(self.prop, rule, file, func, construct, what, line, detail)
        if any(g.key == f.key for g in self.findings):
            return f
        self.findings.append(f)
        self.instances.append({'rule': rule, 'instance': short(f'{os.path.basename(file or "")}:{func}: {construct}', 200),
                               'verdict': 'VIOLATION', 'what': what, 'trivial': False})
        return f

    def unrec(self, rule, what, where=None):
        self.unrecognised.append({'rule': rule, 'what': what, 'where': where})

    def note(self, text):
        self.notes.append(text)

    def guard(self, rule, fn, *args, **kw):
        """Run one rule; an Unrecognised raised inside is recorded, not propagated."""
        try:
            return fn(*args, **kw)
        except Unrecognised as exc:
            self.unrec(exc.rule or rule, exc.what, exc.where)
        return None

    def advisory(self, label, fn, *args, **kw):
        """Run a shape read-back AFTER a semantic run decided the same clause positively: what the read-back cannot recognise, or reads differently, becomes a note
        (a differently spelled but equivalent implementation must not raise an alarm); its OK instances are kept."""
        bu, bf, bi = len(self.unrecognised), len(self.findings), len(self.instances)
        res = None
        try:
            res = fn(*args, **kw)
        except Unrecognised as exc:
            self.note(f'{label}: shape read-back not possible ({exc.rule or ""} {exc.what}); decided by the evaluation')
        for u in self.unrecognised[bu:]:
            self.note(f"{label}: shape read-back: {u['rule']} {u['what']}")
        del self.unrecognised[bu:]
        for f in self.findings[bf:]:
            self.note(f'{label}: shape read-back not confirmed by the evaluation, ignored: {f.rule} {f.what[:160]}')
        del self.findings[bf:]
        self.instances[bi:] = [i for i in self.instances[bi:] if i['verdict'] == 'OK']
        return res

    def undecided_readback(self, label, fn, *args, **kw):
        """Run a shape read-back when the evaluation that decides the same clause could NOT run (it was itself undecided): what the read-back reads as a deviation is not
        confirmed by any evaluated input, so it is recorded as undecided (exit 2), never as a violation; its OK instances are kept."""
        bf, bi = len(self.findings), len(self.instances)
        res = None
        try:
            res = fn(*args, **kw)
        except Unrecognised as exc:
            self.unrec(exc.rule or label, exc.what, exc.where)
        for f in self.findings[bf:]:
            self.unrec(f.rule, f'shape read-back reads a deviation that no evaluation confirms (the deciding evaluation was itself undecided): {f.what[:200]}', f.file)
        del self.findings[bf:]
        self.instances[bi:] = [i for i in self.instances[bi:] if i['verdict'] == 'OK']
        return res

    def readback(self, decided):
        """runner for a shape read-back of a clause that has a deciding evaluation: True (evaluation decided positively) -> advisory; False (the evaluation found a deviation) ->
        armed, it explains the deviation; None (the evaluation was undecided) -> findings of the read-back are undecided too"""
        if decided is None:
            return self.undecided_readback
        if decided:
            return self.advisory
        return lambda label, fn, *a, **k: self.guard(label, fn, *a, **k)

    # -- finish
    def finish(self, explanation, enumeration_rule, replay_key=None):
        # instance floors: a rule that matched fewer sites than confirmed by hand is broken, not passing
        counts = {}
        for inst in self.instances:
            counts[inst['rule']] = counts.get(inst['rule'], 0) + inst.get('count', 1)
        for rule, floor in self.floors.items():
            if counts.get(rule, 0) < floor and not any(u['rule'] == rule for u in self.unrecognised) and not any(f.rule == rule for f in self.findings):
                self.unrec(rule, f'only {counts.get(rule, 0)} instances found, floor is {floor} (rule would pass vacuously)')

        known = load_known()
        known_keys = {k['key']: k for k in known.get('findings', []) if k.get('property') == self.prop}
        new, old = [], []
        for f in self.findings:
            (old if f.key in known_keys else new).append(f)

        out = []
        for f in old:
            out.append(f'KNOWN-FINDING: property={self.prop} {known_keys[f.key].get("what", f.what)} [{f.key}]')
        replay_dir = os.path.join(EVIDENCE_DIR, 'replay', self.prop)
        for f in new:
            os.makedirs(replay_dir, exist_ok=True)
            path = os.path.join(replay_dir, hashlib.sha1(f.key.encode()).hexdigest()[:16] + '.json')
            with open(path, 'w') as fh:
                json.dump(f.as_dict(), fh, indent=1)
            out.append(f'VIOLATION property={self.prop} replay={path}')
            out.append(f'  rule {f.rule}  {f.file}:{f.line or "?"}  in {f.func}: {f.what}')
            out.append(f'    construct: {f.construct}')
        for u in self.unrecognised:
            out.append(f'ANALYSIS-ERROR property={self.prop} rule={u["rule"]} {u["what"]}' + (f' [{u["where"]}]' if u.get('where') else ''))

        n_ok = sum(i.get('count', 1) for i in self.instances if i['verdict'] == 'OK')
        n_all = sum(i.get('count', 1) for i in self.instances)
        nontrivial = {(i['rule'], i['instance']) for i in self.instances if not i.get('trivial')}
        samples = []
        seen_rules = set()
        for i in self.instances:
            if i['rule'] not in seen_rules or i['verdict'] != 'OK':
                seen_rules.add(i['rule'])
                samples.append({k: v for k, v in i.items() if k != 'trivial'})
        samples = samples[:40]
        evidence = {
            'property_id': self.prop,
            'tier': self.tier,
            'seed': int(os.environ.get('VERIF_SEED', '0') or 0),
            'level': 'other',
            'coverage': {
                'explanation': explanation,
                'obligations': n_all,
                'discharged': n_ok,
                'evaluations': n_all,
                'distinct_nontrivial': len(nontrivial) + sum(i.get('count', 1) - 1 for i in self.instances if not i.get('trivial')),
                'rule': enumeration_rule,
                'samples': samples or [{'note': 'no instance evaluated'}],
                'exhaustive': not self.unrecognised,
                'rules': self.rules_doc,
                'instances_per_rule': counts,
                'instance_floors': self.floors,
                'analysed': {'repo': self.repo.root, 'files_sha256': dict(sorted(self.repo.consulted.items()))},
                'known_findings': [f.as_dict() for f in old],
                'new_violations': [f.as_dict() for f in new],
                'unrecognised': self.unrecognised,
                'notes': self.notes,
                **self.extra,
            },
            'assumptions': self.assumptions,
            'wall_s': round(time.time() - self.t0, 3),
            'violations': len(new),
        }
        os.makedirs(EVIDENCE_DIR, exist_ok=True)
        with open(os.path.join(EVIDENCE_DIR, f'{self.prop}.json'), 'w') as fh:
            json.dump(evidence, fh, indent=1, default=str)

        Check.last_code = (1 if any(f.key == replay_key for f in self.findings) else 0) if replay_key is not None else \
            (1 if new else (2 if self.unrecognised else 0))
        print(f'[{self.prop}] tier={self.tier} repo={self.repo.root} rules={len(self.rules_doc)} instances={n_all} '
              f'ok={n_ok} known={len(old)} violations={len(new)} unrecognised={len(self.unrecognised)} '
              f'wall={evidence["wall_s"]}s')
        for rule in sorted(self.rules_doc):
            print(f'  {rule:12} {counts.get(rule, 0):4d} instances   {short(self.rules_doc[rule], 120)}')
        for line in out:
            print(line)

        if replay_key is not None:
            hit = any(f.key == replay_key for f in self.findings)
            print(f'replay: finding {"still present" if hit else "not present"}: {replay_key}')
            return 1 if hit else 0
        if new:
            return 1
        if self.unrecognised:
            return 2
        return 0


def load_known():
    try:
        with open(KNOWN_FINDINGS) as fh:
            return json.load(fh)
    except FileNotFoundError:
        return {'findings': [], 'fixed': []}


# --------------------------------------------------------------------------- small AST helpers shared by rules

def is_name(node, *names):
    return isinstance(node, ast.Name) and (not names or node.id in names)


def call_name(node):
    """'f' for f(...), 'x.m' for x.m(...), else None."""
    if not isinstance(node, ast.Call):
        return None
    f = node.func
    if isinstance(f, ast.Name):
        return f.id
    if isinstance(f, ast.Attribute):
        base = f.value
        if isinstance(base, ast.Name):
            return f'{base.id}.{f.attr}'
        return f'?.{f.attr}'
    return None


def const_str(node):
    return node.value if isinstance(node, ast.Constant) and isinstance(node.value, str) else None


def subscript_key(node):
    """x['k'] -> (x_node, 'k') else None"""
    if isinstance(node, ast.Subscript):
        k = const_str(node.slice)
        if k is not None:
            return node.value, k
    return None


def subscript_path(node):
    """expr['a']['b'] -> (base_node, ['a', 'b']); a Name -> (Name, [])."""
    path = []
    while isinstance(node, ast.Subscript) and const_str(node.slice) is not None:
        path.append(const_str(node.slice))
        node = node.value
    return node, list(reversed(path))


def names_in(node):
    return {n.id for n in ast.walk(node) if isinstance(n, ast.Name)}


def func_stmts(func):
    return [n for n in walk_no_nested(func) if isinstance(n, ast.stmt) and n is not func]


def compares_const(test, varname):
    """If `test` is `var == 'c'` (either order) return 'c' else None."""
    if isinstance(test, ast.Compare) and len(test.ops) == 1 and isinstance(test.ops[0], ast.Eq):
        a, b = test.left, test.comparators[0]
        if is_name(a, varname) and const_str(b) is not None:
            return const_str(b)
        if is_name(b, varname) and const_str(a) is not None:
            return const_str(a)
    return None


def if_chain(node):
    """Flatten `if/elif/.../else` into [(test, body), ..., (None, else_body)]."""
    out = []
    while True:
        out.append((node.test, node.body))
        if len(node.orelse) == 1 and isinstance(node.orelse[0], ast.If) and \
                getattr(node.orelse[0], 'col_offset', None) == getattr(node, 'col_offset', None):
            # a real `elif` (same column); `else:` + nested `if` is an else branch
            node = node.orelse[0]
            continue
        if node.orelse:
            out.append((None, node.orelse))
        return out


# --------------------------------------------------------------------------- constant folding of pure table-building code

class NotConstant(Exception):
    pass


_PURE_BUILTINS = {'len': len, 'set': set, 'frozenset': frozenset, 'dict': dict, 'list': list, 'tuple': tuple, 'sorted': sorted, 'enumerate': enumerate,
                  'range': range, 'zip': zip, 'min': min, 'max': max, 'sum': sum, 'reversed': reversed, 'str': str, 'int': int, 'bool': bool}


def const_eval(mod, node, env=None, depth=0):
    """Evaluate a side-effect free constant expression (literals, comprehensions over literals, slices, pure builtins,
    module-level constants).  This is constant folding of the repository's table-building code, nothing more: any
    construct outside the whitelist raises NotConstant."""
    env = env or {}
    if depth > 40:
        raise NotConstant('depth')

    def ev(n, env):
        return const_eval(mod, n, env, depth + 1)
    if isinstance(node, ast.Constant):
        return node.value
    if isinstance(node, ast.Name):
        if node.id in env:
            return env[node.id]
        if node.id in mod.assigns and len(mod.assigns[node.id]) == 1:
            return const_eval(mod, mod.assigns[node.id][0], {}, depth + 1)
        if node.id in _PURE_BUILTINS:
            return _PURE_BUILTINS[node.id]
        raise NotConstant(node.id)
    if isinstance(node, ast.Tuple):
        return tuple(ev(e, env) for e in node.elts)
    if isinstance(node, ast.List):
        return [ev(e, env) for e in node.elts]
    if isinstance(node, ast.Set):
        return {ev(e, env) for e in node.elts}
    if isinstance(node, ast.Dict):
        out = {}
        for k, v in zip(node.keys, node.values):
            if k is None:
                out.update(ev(v, env))
            else:
                out[ev(k, env)] = ev(v, env)
        return out
    if isinstance(node, (ast.ListComp, ast.SetComp, ast.GeneratorExp, ast.DictComp)):
        results = []

        def rec(ix, env):
            if ix == len(node.generators):
                if isinstance(node, ast.DictComp):
                    results.append((ev(node.key, env), ev(node.value, env)))
                else:
                    results.append(ev(node.elt, env))
                return
            g = node.generators[ix]
            for item in ev(g.iter, env):
                e2 = dict(env)
                _bind(g.target, item, e2)
                if all(ev(c, e2) for c in g.ifs):
                    rec(ix + 1, e2)
        rec(0, env)
        if isinstance(node, ast.DictComp):
            return dict(results)
        if isinstance(node, ast.SetComp):
            return set(results)
        return results
    if isinstance(node, ast.Subscript):
        base = ev(node.value, env)
        if isinstance(node.slice, ast.Slice):
            lo = ev(node.slice.lower, env) if node.slice.lower is not None else None
            hi = ev(node.slice.upper, env) if node.slice.upper is not None else None
            st = ev(node.slice.step, env) if node.slice.step is not None else None
            return base[lo:hi:st]
        return base[ev(node.slice, env)]
    if isinstance(node, ast.BinOp):
        a, b = ev(node.left, env), ev(node.right, env)
        ops = {ast.Add: lambda: a + b, ast.Sub: lambda: a - b, ast.Mult: lambda: a * b, ast.BitOr: lambda: a | b, ast.BitAnd: lambda: a & b}
        if type(node.op) in ops:
            return ops[type(node.op)]()
        raise NotConstant('binop')
    if isinstance(node, ast.UnaryOp) and isinstance(node.op, (ast.USub, ast.Not)):
        v = ev(node.operand, env)
        return -v if isinstance(node.op, ast.USub) else not v
    if isinstance(node, ast.Compare) and len(node.ops) == 1:
        a, b = ev(node.left, env), ev(node.comparators[0], env)
        table = {ast.Eq: a == b, ast.NotEq: a != b, ast.In: None, ast.NotIn: None}
        op = type(node.ops[0])
        if op is ast.In:
            return a in b
        if op is ast.NotIn:
            return a not in b
        if op in (ast.Lt, ast.LtE, ast.Gt, ast.GtE):
            return {ast.Lt: a < b, ast.LtE: a <= b, ast.Gt: a > b, ast.GtE: a >= b}[op]
        if op in table:
            return table[op]
        raise NotConstant('compare')
    if isinstance(node, ast.IfExp):
        return ev(node.body, env) if ev(node.test, env) else ev(node.orelse, env)
    if isinstance(node, ast.BoolOp):
        val = None
        for v in node.values:
            val = ev(v, env)
            if isinstance(node.op, ast.And) and not val:
                return val
            if isinstance(node.op, ast.Or) and val:
                return val
        return val
    if isinstance(node, ast.Call):
        if isinstance(node.func, ast.Name) and node.func.id in _PURE_BUILTINS and not node.keywords:
            fn = _PURE_BUILTINS[node.func.id]
            args = [ev(a, env) for a in node.args]
            out = fn(*args)
            return list(out) if node.func.id in ('enumerate', 'zip', 'range', 'reversed') else out
        if isinstance(node.func, ast.Attribute) and node.func.attr in ('items', 'keys', 'values', 'union', 'split', 'join', 'index') and not node.keywords:
            base = ev(node.func.value, env)
            args = [ev(a, env) for a in node.args]
            out = getattr(base, node.func.attr)(*args)
            return list(out) if node.func.attr in ('items', 'keys', 'values') else out
        raise NotConstant(norm(node.func))
    raise NotConstant(type(node).__name__)


def _bind(target, value, env):
    if isinstance(target, ast.Name):
        env[target.id] = value
    elif isinstance(target, (ast.Tuple, ast.List)):
        vals = list(value)
        if len(vals) != len(target.elts):
            raise NotConstant('unpack')
        for t, v in zip(target.elts, vals):
            _bind(t, v, env)
    else:
        raise NotConstant('target')
