"""E6x: abstract interpretation of the expression parser (parse_expression and its helpers) over abstract token streams.

The text being parsed is never concrete.  It is an `AStream`: a sequence of abstract tokens (an identifier, a number
literal, a string literal, `(`, `)`, `,`, one of the operator spellings, a character no token regex accepts) plus a
position.  `REGEX.match(stream)` is an oracle decided from the *pattern* of the regex constant (its kind and, for the
operator regexes, the finite ordered language of its capturing group, both read from the regex syntax tree);
`match.group(n)` is the operator spelling or an opaque lexeme symbol carrying its token position;
`text[len(m.group(0)):]` / `text[m.end():]` advance the stream by the tokens the match consumed - a slice computed from
a match of ANOTHER text yields a mis-aligned stream, which is reported.  Everything else (the dict templates, the
re-ordering walk over already built nodes, the table lookups, recursion) is evaluated exactly by absint.Interp, so the
verdict does not depend on how the code is spelled, only on the tree it builds.

The reference is a ten-line precedence-climbing parser over the same token alphabet that implements the documented
ladder.  A sequence's verdict is: same tree / both reject.
"""
import ast

from .core import Unrecognised, norm
from .rx import Rx, class_matches
from .absint import Interp, Sym, ADict, AList, ARegex, RaiseSig, ReturnSig, reify

OPCHARS = '*/%+-<>=!&|~^'


def ordered_language(node, limit=400):
    """finite language of a regex sub-tree as a list in the priority order a backtracking engine tries it"""
    k = node.kind
    if k == 'lit':
        return [node.a]
    if k == 'in':
        if node.a or any(i[0] != 'lit' for i in node.b):
            raise Unrecognised('E4', 'character class is not a finite list of literals')
        return [i[1] for i in node.b]
    if k in ('cat', 'group'):
        out = ['']
        for kid in node.kids:
            sub = ordered_language(kid, limit)
            out = [a + b for a in out for b in sub]
            if len(out) > limit:
                raise Unrecognised('E4', 'language too large')
        return out
    if k == 'alt':
        out = []
        for kid in node.kids:
            out += ordered_language(kid, limit)
        return out
    if k == 'rep':
        lo, hi, greedy = node.a, node.b, node.c
        if hi > 3:
            raise Unrecognised('E4', 'unbounded repetition')
        sub = ordered_language(node.kids[0], limit)
        return [a + b for a in _repeat_exact(sub, lo) for b in _rep_tail(sub, hi - lo, greedy)]
    raise Unrecognised('E4', f'regex construct {k} in an operator group')


def _repeat_exact(sub, n):
    out = ['']
    for _ in range(n):
        out = [a + b for a in out for b in sub]
    return out


def _rep_tail(sub, n, greedy):
    if n == 0:
        return ['']
    more = [a + b for a in sub for b in _rep_tail(sub, n - 1, greedy)]
    return (more + ['']) if greedy else ([''] + more)


def _dedup(seq):
    seen, out = set(), []
    for s in seq:
        if s not in seen:
            seen.add(s)
            out.append(s)
    return out


def group_language(rx, index=1):
    g = rx.group_node(index)
    if g is None:
        raise Unrecognised('E4', f'{rx.name}: no group {index}')
    return _dedup(ordered_language(g))


def classify_expr_regexes(mod):
    """expression-token regex constants of parser.py classified from their patterns -> {name: (kind, Rx)}"""
    out = {}
    for name, rg in mod.regexes().items():
        try:
            rx = Rx(rg.pattern, rg.flags, name)
        except Unrecognised:
            continue
        items = rx.top_items()
        if not items or items[0].kind != 'at' or rx.anchored_end():
            continue
        rest = [x for x in items[1:] if not Rx.is_ws_star(x)]
        if not rest:
            continue
        first = rest[0]
        mand = rx.mandatory_chars()
        lit = Rx.literal_of(first)
        kind = None
        if first.kind == 'group':
            lang = None
            try:
                lang = _dedup(ordered_language(first))
            except Unrecognised:
                lang = None
            if lang and '**' in lang:
                kind = 'binary_op'
            elif lang and all(len(s) == 1 and s in OPCHARS for s in lang) and len(rest) == 1:
                kind = 'unary_op'
            elif any(n.kind == 'in' and ('cat', 'CATEGORY_DIGIT') in n.b for n in rx.walk(first)) and not any(n.kind == 'in' and any(i[0] == 'range' for i in n.b) for n in rx.walk(first)):
                kind = 'number'
            elif any(n.kind == 'in' and any(i[0] == 'range' for i in n.b) for n in rx.walk(first)):
                kind = 'function_open' if (len(rest) > 1 and '(' in mand) else 'variable'
        elif lit == '(':
            kind = 'group_open'
        elif lit == ')':
            kind = 'close'
        elif lit == ',':
            kind = 'separator'
        elif lit == "'":
            kind = 'string'
        elif lit == '"':
            kind = 'string_double'
        elif lit == '[':
            kind = 'variable_ex'
        if kind:
            out[name] = (kind, rx)
    return out


# ------------------------------------------------------------------------------------------------ abstract text
class AStream:
    """abstract expression text: token tuple + position; aligned=False marks a remainder cut at the wrong place"""
    __slots__ = ('tokens', 'pos', 'aligned')
    _is_text = True         # stands for a host string (isinstance(x, str) holds)

    def __init__(self, tokens, pos, aligned=True):
        self.tokens = tokens
        self.pos = pos
        self.aligned = aligned

    def __repr__(self):
        return f'Text@{self.pos}' + ('' if self.aligned else '!misaligned')


class TMatch:
    def __init__(self, regex, stream, n, groups):
        self.regex = regex
        self.stream = stream
        self.n = n
        self.groups = groups


def show(tokens):
    names = iter('abcdefghijklmnopq')
    out = []
    for t in tokens:
        k = t[0]
        out.append({'name': lambda: next(names), 'num': lambda: '1', 'str1': lambda: "'s'", 'str2': lambda: '"s"', 'varex': lambda: '[v w]',
                    'op': lambda: t[1], 'junk': lambda: '@'}.get(k, lambda: k)())
    return ' '.join(out)


class ExprInterp(Interp):
    def __init__(self, mod, kinds, rule='E6x'):
        super().__init__(mod, rule)
        self.max_depth = 400
        self.kinds = kinds            # regex constant name -> (kind, Rx)
        self.lang = {}
        self.signed_number = {}
        for name, (kind, rx) in kinds.items():
            if kind in ('binary_op', 'unary_op'):
                self.lang[name] = group_language(rx, 1)
            if kind == 'number':
                g = rx.group_node(1)
                first = g.kids[0].kids[0] if g is not None and g.kids and g.kids[0].kids else None
                signs = set()
                if first is not None and first.kind == 'rep' and first.a == 0:
                    for ch in '+-':
                        try:
                            inner = first.kids[0].kids[0]
                            if class_matches(inner, ch):
                                signs.add(ch)
                        except Unrecognised:
                            pass
                self.signed_number[name] = signs
        self.raises = []

    # oracle ------------------------------------------------------------------------------------------------
    def match_tokens(self, rname, st):
        if rname not in self.kinds:
            raise Unrecognised(self.rule, f'regex {rname} applied to expression text is not a classified token regex', self.mod.rel)
        if not st.aligned:
            raise Unrecognised(self.rule, 'token regex applied to a mis-aligned remainder', self.mod.rel)
        kind = self.kinds[rname][0]
        toks, p = st.tokens, st.pos
        t = toks[p] if p < len(toks) else ('end',)
        t2 = toks[p + 1] if p + 1 < len(toks) else ('end',)
        lex = Sym('lexeme', p, t[1] if (t[0] == 'num' and len(t) > 1) else (t2[1] if (t2[0] == 'num' and len(t2) > 1) else None))
        if kind in ('binary_op', 'unary_op'):
            if t[0] == 'op' and t[1] in self.lang[rname]:
                return TMatch(rname, st, 1, {1: t[1]})
            return None
        if kind == 'number':
            if t[0] == 'num':
                return TMatch(rname, st, 1, {1: lex})
            if t[0] == 'op' and t[1] in self.signed_number[rname] and t2[0] == 'num':
                return TMatch(rname, st, 2, {1: lex})
            return None
        if kind == 'function_open':
            return TMatch(rname, st, 2, {1: lex}) if (t[0] == 'name' and t2[0] == '(') else None
        simple = {'variable': 'name', 'group_open': '(', 'close': ')', 'separator': ',', 'string': 'str1', 'string_double': 'str2', 'variable_ex': 'varex'}
        if kind in simple:
            return TMatch(rname, st, 1, {1: lex}) if t[0] == simple[kind] else None
        raise Unrecognised(self.rule, f'token regex kind {kind}', self.mod.rel)

    # hooks -------------------------------------------------------------------------------------------------
    def method_hook(self, base, m, args, e):
        if isinstance(base, ARegex) and m == 'match' and args and isinstance(args[0], AStream):
            if len(args) != 1:
                self.bad(e, 'match() with a position argument')
            return self.match_tokens(base.name, args[0])
        if isinstance(base, ARegex) and m in ('search', 'fullmatch', 'finditer', 'findall') and args and isinstance(args[0], AStream):
            self.bad(e, f'regex method {m} on expression text')
        if isinstance(base, TMatch):
            if m == 'group':
                key = args[0] if args else 0
                if key == 0:
                    return Sym('group0', base)
                if key not in base.groups:
                    name_ix = self.kinds[base.regex][1].group_node(key)
                    if name_ix is not None and name_ix.a in base.groups:
                        return base.groups[name_ix.a]
                    raise Unrecognised(self.rule, f'{norm(e)}: group {key!r} of {base.regex}', self.mod.rel)
                return base.groups[key]
            if m == 'end' and (not args or args[0] == 0):
                return Sym('end', base)
            if m == 'groups' and not args:
                return tuple(base.groups[k] for k in sorted(base.groups))
            self.bad(e, f'match method {m}')
        if isinstance(base, AStream):
            if m in ('strip', 'lstrip', 'rstrip') and not args:
                return '' if (base.pos >= len(base.tokens) and base.aligned) else base
            if m == 'isspace' and not args:
                return False if base.pos < len(base.tokens) else Sym('bool')
            self.bad(e, f'text method .{m}() on expression text')
        return NotImplemented

    def slice_hook(self, base, lo, hi, e):
        if isinstance(base, AStream):
            if hi is not None:
                self.bad(e, 'upper-bounded slice of expression text')
            m = None
            if isinstance(lo, Sym) and lo.kind == 'end':
                m = lo.args[0]
            elif isinstance(lo, Sym) and lo.kind == 'len' and isinstance(lo.args[0], Sym) and lo.args[0].kind == 'group0':
                m = lo.args[0].args[0]
            if m is None:
                if lo in (None, 0):
                    return base
                self.bad(e, 'slice of expression text by something other than the length of a match')
            if m.stream.tokens is base.tokens and m.stream.pos == base.pos and base.aligned:
                return AStream(base.tokens, base.pos + m.n)
            return AStream(base.tokens, base.pos, aligned=False)
        return NotImplemented

    def builtin_hook(self, name, args, e):
        if name == 'len' and args and isinstance(args[0], AStream):
            return Sym('len', args[0])
        if name in ('float', 'int') and args and isinstance(args[0], Sym):
            if name == 'int' and args[0].kind == 'lexeme' and len(args[0].args) > 1 and args[0].args[1] in ('dot', 'exp', 'dotexp'):
                raise RaiseSig('ValueError', ('invalid literal for int() with base 10',), e)
            return Sym(name, args[0])
        return NotImplemented

    def compare(self, op, a, b, node):
        if isinstance(op, (ast.In, ast.NotIn)) and isinstance(b, Sym) and b.kind == 'lexeme' and isinstance(a, str) and len(b.args) > 1 and b.args[1] is not None:
            has = {'int': '', 'dot': '.', 'exp': 'eE', 'dotexp': '.eE'}[b.args[1]]
            if a in ('.', 'e', 'E'):
                r = a in has or (a in 'eE' and 'e' in has)
                return r if isinstance(op, ast.In) else not r
        return super().compare(op, a, b, node)

    def truth(self, v, node=None):
        if isinstance(v, TMatch):
            return True
        if isinstance(v, AStream):
            if v.pos < len(v.tokens):
                return True
            raise Unrecognised(self.rule, 'truthiness of a possibly blank remainder', self.mod.rel)
        if isinstance(v, Sym) and v.kind in ('lexeme', 'float', 'int'):
            raise Unrecognised(self.rule, f'truthiness of {v!r}', self.mod.rel)
        return super().truth(v, node)

    def _eq(self, a, b):
        for x, y in ((a, b), (b, a)):
            if isinstance(x, AStream):
                if y == '':
                    return False     # strip() already returned '' for a blank remainder
                if isinstance(y, AStream):
                    return x.tokens is y.tokens and x.pos == y.pos
                raise Unrecognised(self.rule, 'comparison of expression text with a value', self.mod.rel)
            if isinstance(x, TMatch):
                return a is b
        return Interp._eq(a, b)

    def exec_stmt(self, s, env):
        try:
            return super().exec_stmt(s, env)
        except RaiseSig as sig:
            if sig.node is s and isinstance(s, ast.Raise):
                self.raises.append(sig)
            raise

    def parse(self, tokens):
        """-> ('tree', python structure) | ('reject', RaiseSig) ; raises Unrecognised"""
        self.raises = []
        self.depth = 0
        fn = self.mod.funcs['parse_expression']
        st = AStream(tuple(tokens), 0)
        try:
            val = self.call_function(fn, [st], fn)
        except RaiseSig as sig:
            return ('reject', sig)
        return ('tree', reify(val))


# ------------------------------------------------------------------------------------------------ reference
LADDER = [['**'], ['*', '/', '%'], ['+', '-'], ['<=', '<', '>=', '>'], ['==', '!='], ['&&'], ['||']]
RUNG = {op: i for i, ops in enumerate(LADDER) for op in ops}
UNARY = ('!', '-')


class Reject(Exception):
    pass


def reference(tokens):
    """-> tree in normal form, or raises Reject.  Precedence climbing over the documented ladder, left-associative."""
    pos = 0

    def peek(k=0):
        return tokens[pos + k] if pos + k < len(tokens) else ('end',)

    def operand():
        nonlocal pos
        t = peek()
        if t[0] == '(':
            pos += 1
            inner = expr(0)
            if peek()[0] != ')':
                raise Reject()
            pos += 1
            return ('group', inner)
        if t[0] == 'op' and t[1] in UNARY:
            pos += 1
            return ('unary', t[1], operand())
        if t[0] == 'name' and peek(1)[0] == '(':
            at = pos
            pos += 2
            args = []
            while True:
                if peek()[0] == ')':
                    pos += 1
                    break
                if args:
                    if peek()[0] != ',':
                        raise Reject()
                    pos += 1
                args.append(expr(0))
            return ('function', at, tuple(args))
        if t[0] == 'num':
            pos += 1
            return ('number', pos - 1)
        if t[0] == 'op' and t[1] == '+' and peek(1)[0] == 'num':
            pos += 2
            return ('number', pos - 2)
        if t[0] in ('str1', 'str2'):
            pos += 1
            return ('string', pos - 1)
        if t[0] in ('name', 'varex'):
            pos += 1
            return ('variable', pos - 1)
        raise Reject()

    def expr(min_prec):
        nonlocal pos
        left = operand()
        while True:
            t = peek()
            if t[0] != 'op' or t[1] not in RUNG:
                return left
            prec = 7 - RUNG[t[1]]
            if prec < min_prec:
                return left
            pos += 1
            right = expr(prec + 1)
            left = ('binary', t[1], left, right)

    tree = expr(0)
    if pos != len(tokens):
        raise Reject()
    return tree


def _leafpos(v):
    if isinstance(v, Sym):
        if v.kind == 'lexeme':
            return v.args[0]
        for a in v.args:
            p = _leafpos(a)
            if p is not None:
                return p
    if isinstance(v, tuple):
        for a in v:
            p = _leafpos(a)
            if p is not None:
                return p
    return None


def normal(tree):
    """model produced by the interpreted parser -> the reference's normal form (or a descriptive mismatch marker)"""
    if not isinstance(tree, dict) or len(tree) != 1:
        return ('?', repr(tree)[:60])
    (k, v), = tree.items()
    if k == 'binary' and isinstance(v, dict) and set(v) == {'op', 'left', 'right'}:
        return ('binary', v['op'], normal(v['left']), normal(v['right']))
    if k == 'unary' and isinstance(v, dict) and set(v) == {'op', 'expr'}:
        return ('unary', v['op'], normal(v['expr']))
    if k == 'group':
        return ('group', normal(v))
    if k == 'function' and isinstance(v, dict) and set(v) <= {'name', 'args'} and 'name' in v:
        return ('function', _leafpos(v['name']), tuple(normal(a) for a in (v.get('args') or [])))
    if k in ('number', 'string', 'variable'):
        return (k, _leafpos(v))
    return ('?', repr(tree)[:60])


def pretty(t):
    if not isinstance(t, tuple):
        return repr(t)
    k = t[0]
    if k == 'binary':
        return f'({pretty(t[2])} {t[1]} {pretty(t[3])})'
    if k == 'unary':
        return f'{t[1]}[{pretty(t[2])}]'
    if k == 'group':
        return f'group{{{pretty(t[1])}}}'
    if k == 'function':
        return f'call@{t[1]}(' + ', '.join(pretty(a) for a in t[2]) + ')'
    return f'{k}@{t[1]}'
