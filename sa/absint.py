"""E6: abstract interpreter for the Python subset used by parser.parse_script.

The parser's *inputs* are never concrete: a line is an abstract `ALine` that says which statement regex constant
matches it (the case split of the analysis) and which of that regex's groups participate; `REGEX.match(line)` is an
oracle lookup, `match.group(n)` is an opaque symbol (or the literal the regex forces, e.g. the include delimiter),
`parse_expression(x)` is the opaque symbol Parsed(x).  Everything else - the dict/list templates, the construct
stack, the label counter, the mutation of already emitted jump objects - is evaluated exactly, on a heap of
abstract objects with identity.  Constructs outside the subset raise Unrecognised (never a guess).
"""
import ast

from .core import Unrecognised, norm


class Sym:
    """opaque symbolic value"""
    __slots__ = ('kind', 'args')

    def __init__(self, kind, *args):
        self.kind = kind
        self.args = args

    def __eq__(self, other):
        return isinstance(other, Sym) and (self.kind, self.args) == (other.kind, other.args)

    def __hash__(self):
        return hash((self.kind, self.args))

    def __repr__(self):
        return f'{self.kind}({", ".join(map(repr, self.args))})' if self.args else self.kind


class ALine:
    """abstract logical line: matched by regex constant `regex` (None = no statement regex matches: an expression
    statement); groups: name -> 'sym' (participates, non-empty) | None (does not participate) | literal string"""

    def __init__(self, lid, regex, groups=None, also=(), cont=None, parts=None):
        self.lid = lid
        self.regex = regex
        self.groups = groups or {}
        self.also = tuple(also)
        self.cont = cont          # None | 'text' | 'blank': the physical line ends in a continuation backslash
        self.parts = parts        # for a joined logical line: lids of its physical parts

    def __repr__(self):
        return f'Line{self.lid}<{self.regex or "expr"}>'


class APart:
    """a physical line with its continuation backslash removed"""

    def __init__(self, line):
        self.line = line

    def __repr__(self):
        return f'Part{self.line.lid}'


class AMatch:
    def __init__(self, regex, line):
        self.regex = regex
        self.line = line


class ARegex:
    def __init__(self, name, pattern=None, flags=0):
        self.name = name
        self.pattern = pattern      # anonymous regexes built from concrete text
        self.flags = flags


class CMatch:
    """the host's match object for a repository regex applied to a concrete string"""

    def __init__(self, m, regex):
        self.m = m
        self.regex = regex


class ADict:
    def __init__(self, items=None):
        self.d = dict(items or {})

    def __repr__(self):
        return f'ADict({self.d!r})'


class AList:
    def __init__(self, items=None):
        self.l = list(items or [])

    def __repr__(self):
        return f'AList({self.l!r})'


class ASet:
    """a mutable host set of concrete hashable items; its iteration order is the interpreter's `set_order` ('asc' | 'desc' by repr): a result that depends on
    the order differs between the two runs, which is how hash-order dependence is decided"""

    def __init__(self, items=()):
        self.s = set(items)

    def __repr__(self):
        return f'ASet({sorted(self.s, key=repr)!r})'


class AObj:
    """an instance of a repository class under construction: attribute stores / loads; super().__init__(...) records the base-class arguments under 'args'"""

    def __init__(self, cls):
        self.cls = cls
        self.attrs = {}

    def __repr__(self):
        return f'<{self.cls} {self.attrs!r}>'


class ADictObj(ADict, AObj):
    """an instance of a repository class derived from dict: a heap dict (every dict operation applies) that also carries attributes and the class's methods (__missing__)"""

    def __init__(self, cls):
        ADict.__init__(self)
        AObj.__init__(self, cls)

    def __repr__(self):
        return f'<{self.cls} {self.d!r} {self.attrs!r}>'


class AKeys(list):
    """the keys view of a dict (an ordered list that also supports the set operators)"""


class AIter:
    """host iterator over a concrete item list"""

    def __init__(self, items):
        self.items = list(items)
        self.pos = 0


class ALazy:
    """lazy (possibly infinite) iterable over abstract values: `factory()` returns a fresh python iterator"""

    def __init__(self, factory):
        self.factory = factory
        self._it = None

    def iterator(self):
        if self._it is None:
            self._it = self.factory()
        return self._it


class AGen:
    """a generator function call: the body runs in a helper thread with strict hand-off, so effects interleave with the consumer exactly as in the host"""

    def __init__(self, interp, node, env):
        import threading
        self.interp, self.node, self.env = interp, node, env
        self.started = False
        self.done = False
        self.to_gen = threading.Semaphore(0)
        self.to_main = threading.Semaphore(0)
        self.item = None
        self.error = None
        self.thread = None

    def _run(self):
        self.to_gen.acquire()
        try:
            self.interp._gen_stack.append(self)
            try:
                self.interp.exec_block(self.node.body, self.env)
            except ReturnSig:
                pass
        except BaseException as exc:        # RaiseSig / Unrecognised: re-raised in the consumer
            self.error = exc
        finally:
            if self.interp._gen_stack and self.interp._gen_stack[-1] is self:
                self.interp._gen_stack.pop()
            self.done = True
            self.to_main.release()

    def next(self):
        """-> (True, value) | (False, None)"""
        import threading
        if self.done:
            return False, None
        if not self.started:
            self.started = True
            self.thread = threading.Thread(target=self._run, daemon=True)
            self.thread.start()
        saved = list(self.interp._gen_stack)
        self.to_gen.release()
        self.to_main.acquire()
        self.interp._gen_stack[:] = saved
        if self.error is not None:
            err, self.error = self.error, None
            raise err
        if self.done:
            return False, None
        return True, self.item

    def yield_(self, value):
        self.item = value
        self.interp._gen_stack.pop()
        self.to_main.release()
        self.to_gen.acquire()
        self.interp._gen_stack.append(self)
        pending, self.pending_throw = getattr(self, 'pending_throw', None), None
        if pending is not None:
            raise pending          # generator.throw(): the exception is raised at the yield

    def throw(self, sig):
        """raise `sig` inside the generator at its current yield -> (True, value) if it yields again | (False, None) if it finishes; the exception propagates if not handled"""
        if self.done or not self.started:
            raise sig
        self.pending_throw = sig
        return self.next()


class ACount:
    """itertools.count(start, step)"""

    def __init__(self, start=0, step=1):
        self.value = start
        self.step = step


class ContinueSig(Exception):
    pass


class BreakSig(Exception):
    pass


class ReturnSig(Exception):
    def __init__(self, value):
        self.value = value


class RaiseSig(Exception):
    def __init__(self, cls, args, node=None):
        self.cls = cls
        self.args_ = args
        self.node = node


DYN_NAMEDTUPLES = {}        # classes created by collections.namedtuple(name, fields) at module level: name -> field names


def _package_modules(repo):
    """the modules of the package, the well-known ones first (a helper module added by a refactoring is found too)"""
    first = ['value', 'parser', 'library', 'runtime', 'model', 'data', 'options', 'bare']
    try:
        names = repo.all_module_names()
    except Exception:
        names = []
    return [n for n in first if n in names or not names] + [n for n in names if n not in first]


class ModuleFunc:
    def __init__(self, node, mod=None):
        self.node = node
        self.mod = mod          # home module (None: the interpreter's own)


class Interp:
    def __init__(self, mod, rule='E6'):
        self.mod = mod
        self.rule = rule
        self.globals = {}
        for name in mod.assigns:
            v = mod.assigns[name][0]
            if isinstance(v, ast.Call) and norm(v.func) == 're.compile':
                self.globals[name] = ARegex(name)
        try:
            for name in mod.regexes():          # also regexes built by a factory function / f-string (constant-folded by the loader)
                self.globals.setdefault(name, ARegex(name))
        except Exception:
            pass
        for name, fn in mod.funcs.items():
            if '.' not in name:
                self.globals[name] = ModuleFunc(fn, mod)
        for name in mod.classes:
            self.globals[name] = ('class', name)
        self.depth = 0
        self.max_depth = 4
        self._lazy = {}
        self._gen_stack = []
        self.oracles = {}     # callee name -> fn(args, node): summaries of functions that are not interpreted
        self.fail_parse = None   # optional oracle: parse_expression(x) raises when fail_parse(x) is true
        self.trace = []      # (event, detail) e.g. stack operations for C01.S

    def bad(self, node, what):
        raise Unrecognised(self.rule, f'{what}: {norm(node)[:90]}', f'{self.mod.rel}:{getattr(node, "lineno", "?")}')

    # ------------------------------------------------------------------ statements
    def exec_block(self, stmts, env):
        for s in stmts:
            self.exec_stmt(s, env)

    def exec_stmt(self, s, env):
        if isinstance(s, ast.Expr):
            if isinstance(s.value, ast.Constant):
                return
            self.eval(s.value, env)
        elif isinstance(s, ast.Assign):
            val = self.eval(s.value, env)
            for t in s.targets:
                self.assign(t, val, env)
        elif isinstance(s, ast.AugAssign):
            cur = self.eval(ast.copy_location(self._load(s.target), s.target), env)
            val = self.binop(s.op, cur, self.eval(s.value, env), s)
            self.assign(s.target, val, env)
        elif isinstance(s, ast.If):
            if self.truth(self.eval(s.test, env), s.test):
                self.exec_block(s.body, env)
            else:
                self.exec_block(s.orelse, env)
        elif isinstance(s, ast.Try):
            try:
                self.exec_block(s.body, env)
            except RaiseSig as sig:
                for h in s.handlers:
                    names = None
                    if h.type is not None:
                        names = {norm(e) for e in (h.type.elts if isinstance(h.type, ast.Tuple) else [h.type])}
                    if names is None or self.exc_matches(sig.cls, names):
                        if h.name:
                            env[h.name] = Sym('exc', sig.cls, sig.args_)
                        try:
                            self.exec_block(h.body, env)
                        except RaiseSig as again:
                            if again.cls == '<reraise>':
                                raise sig
                            raise
                        break
                else:
                    raise
            else:
                self.exec_block(s.orelse, env)
            finally:
                if s.finalbody:
                    self.exec_block(s.finalbody, env)
        elif isinstance(s, ast.Assert):
            if not getattr(self, 'concrete_asserts', False):
                holds = True        # engines over abstract values: an assert is a stated belief, assumed to hold (abstract stand-ins are not the host values it speaks of)
            else:
                try:
                    holds = self.truth(self.eval(s.test, env), s.test)
                except Unrecognised:
                    holds = True    # the test reaches a value the engine does not model: assumed to hold
            if not holds:
                raise RaiseSig('AssertionError', ((self.eval(s.msg, env),) if s.msg is not None else ()), s)
        elif isinstance(s, ast.Raise):
            if s.exc is None:
                raise RaiseSig('<reraise>', (), s)
            if isinstance(s.exc, ast.Call):
                callee = None
                if isinstance(s.exc.func, ast.Name) and (s.exc.func.id in env or s.exc.func.id in self.globals):
                    callee = env.get(s.exc.func.id, self.globals.get(s.exc.func.id))
                method_of_value = False
                if isinstance(s.exc.func, ast.Attribute):
                    # a method of a local object (not a dotted class name like json.JSONDecodeError): evaluate the call, it returns the exception
                    root = s.exc.func.value
                    while isinstance(root, ast.Attribute):
                        root = root.value
                    method_of_value = not (isinstance(root, ast.Name) and root.id in self.mod.imports and root.id not in env)
                if method_of_value or isinstance(callee, ModuleFunc) or (isinstance(callee, tuple) and callee and callee[0] in ('closure', 'partial')):
                    # a helper that builds and returns the exception object
                    val = self.eval(s.exc, env)
                    if isinstance(val, Sym) and val.kind == 'instance':
                        raise RaiseSig(val.args[0], tuple(val.args[1]), s)
                    if isinstance(val, Sym) and val.kind == 'exc':
                        raise RaiseSig(val.args[0], tuple(val.args[1]), s)
                    self.bad(s, 'raise of a value that is not an exception instance')
                cls = norm(s.exc.func)
                args = tuple(self.eval(a, env) for a in s.exc.args)
                raise RaiseSig(cls, args, s)
            if isinstance(s.exc, ast.Name) and s.exc.id in env:
                val = env[s.exc.id]
                if isinstance(val, Sym) and val.kind in ('instance', 'exc'):
                    raise RaiseSig(val.args[0], tuple(val.args[1]), s)
            raise RaiseSig(norm(s.exc), (), s)
        elif isinstance(s, ast.Continue):
            raise ContinueSig()
        elif isinstance(s, ast.Break):
            raise BreakSig()
        elif isinstance(s, ast.Return):
            raise ReturnSig(self.eval(s.value, env) if s.value is not None else None)
        elif isinstance(s, ast.Pass):
            return
        elif isinstance(s, ast.FunctionDef):
            env[s.name] = ('closure-def', s, env)
        elif isinstance(s, ast.Delete):
            for t in s.targets:
                if not isinstance(t, ast.Subscript):
                    self.bad(s, 'del of a non-subscript')
                base = self.eval(t.value, env)
                if isinstance(t.slice, ast.Slice):
                    lo = self.eval(t.slice.lower, env) if t.slice.lower is not None else None
                    hi = self.eval(t.slice.upper, env) if t.slice.upper is not None else None
                    if isinstance(base, AList) and all(x is None or (isinstance(x, int) and not isinstance(x, bool)) for x in (lo, hi)) and t.slice.step is None:
                        del base.l[lo:hi]
                    else:
                        self.bad(s, 'del of a slice outside the subset')
                else:
                    key = self.eval(t.slice, env)
                    if isinstance(base, AList):
                        if isinstance(key, float):
                            raise RaiseSig('TypeError', ('list indices must be integers or slices, not float',), s)
                        if not isinstance(key, int):
                            self.bad(s, 'del with a non-concrete index')
                        try:
                            del base.l[key]
                        except IndexError:
                            raise RaiseSig('IndexError', (key,), s)
                    elif isinstance(base, ADict):
                        if key not in base.d:
                            raise RaiseSig('KeyError', (key,), s)
                        del base.d[key]
                    else:
                        self.bad(s, 'del on a non-container')
        elif isinstance(s, ast.For):
            it = self.eval(s.iter, env)
            seq = self.py_iter(it, s.iter) if isinstance(it, (AGen, ALazy, ACount)) else self.iterate(it, s.iter)
            for item in seq:
                self.assign(s.target, item, env)
                try:
                    self.exec_block(s.body, env)
                except ContinueSig:
                    continue
                except BreakSig:
                    break
            else:
                self.exec_block(s.orelse, env)
        elif isinstance(s, ast.With):
            if len(s.items) != 1:
                self.bad(s, 'with statement with several items')
            item = s.items[0]
            cx = item.context_expr
            if isinstance(cx, ast.Call) and norm(cx.func) in ('contextlib.suppress', 'suppress') and not cx.keywords and \
                    all(isinstance(a, (ast.Name, ast.Attribute)) for a in cx.args):
                # contextlib.suppress(A, B): an exception of one of the classes raised in the body ends the body silently
                classes = [norm(a) for a in cx.args]
                if item.optional_vars is not None:
                    self.assign(item.optional_vars, None, env)
                try:
                    self.exec_block(s.body, env)
                except RaiseSig as sig:
                    if sig.cls == '<reraise>' or not self.exc_matches(sig.cls, classes):
                        raise
                return
            if isinstance(cx, ast.Call) and norm(cx.func) in ('contextlib.nullcontext', 'nullcontext') and len(cx.args) <= 1 and not cx.keywords:
                if item.optional_vars is not None:
                    self.assign(item.optional_vars, self.eval(cx.args[0], env) if cx.args else None, env)
                self.exec_block(s.body, env)
                return
            cm = self.eval(item.context_expr, env)
            if isinstance(cm, AGen):
                # a generator-based context manager (contextlib.contextmanager): run to the yield, bind, run the body, resume for the clean-up
                fn = cm.node
                guarded = any(isinstance(t, ast.Try) and t.handlers and any(isinstance(y, ast.Yield) for b in t.body for y in ast.walk(b)) for t in ast.walk(fn))
                ok, val = cm.next()
                if not ok:
                    raise RaiseSig('RuntimeError', ("generator didn't yield",), s)
                if item.optional_vars is not None:
                    self.assign(item.optional_vars, val, env)
                try:
                    self.exec_block(s.body, env)
                except (RaiseSig,) as sig:
                    # contextlib.contextmanager: the exception is thrown into the generator at its yield; if the generator finishes without re-raising, it is swallowed
                    try:
                        again, _v = cm.throw(sig)
                    except RaiseSig as out:
                        if out.cls == '<reraise>':
                            raise sig
                        raise
                    if again:
                        raise RaiseSig('RuntimeError', ("generator didn't stop after throw()",), s)
                except (ReturnSig, BreakSig, ContinueSig):
                    cm.next()
                    raise
                cm.next()
            elif isinstance(cm, AObj):
                # a repository class with __enter__ / __exit__
                val = self.call_object_method(cm, '__enter__', [], s)
                if item.optional_vars is not None:
                    self.assign(item.optional_vars, val, env)
                try:
                    self.exec_block(s.body, env)
                except RaiseSig as sig:
                    swallow = self.call_object_method(cm, '__exit__', [('class', sig.cls), Sym('exc', sig.cls, sig.args_), Sym('traceback')], s)
                    if not self.truth(swallow, s):
                        raise
                except (ReturnSig, BreakSig, ContinueSig):
                    self.call_object_method(cm, '__exit__', [None, None, None], s)
                    raise
                else:
                    self.call_object_method(cm, '__exit__', [None, None, None], s)
            elif isinstance(cm, Sym) and cm.kind in ('method', 'hostcall', 'pkgdir'):
                # a host object (an open file ...): it is its own context value
                if item.optional_vars is not None:
                    self.assign(item.optional_vars, cm, env)
                self.exec_block(s.body, env)
            else:
                self.bad(s, 'with statement over a value that is not a context manager model')
        elif isinstance(s, ast.Match):
            subject = self.eval(s.subject, env)
            for case in s.cases:
                binds = {}
                if self.match_pattern(case.pattern, subject, binds, env, s):
                    env.update(binds)
                    if case.guard is None or self.truth(self.eval(case.guard, env), case.guard):
                        self.exec_block(case.body, env)
                        break
        elif isinstance(s, ast.While):
            n = 0
            while self.truth(self.eval(s.test, env), s.test):
                n += 1
                if n > getattr(self, 'max_while', 1000):
                    self.bad(s, 'while loop does not terminate under abstract evaluation')
                try:
                    self.exec_block(s.body, env)
                except ContinueSig:
                    continue
                except BreakSig:
                    break
        else:
            self.bad(s, f'statement kind {type(s).__name__} outside the interpreted subset')

    @staticmethod
    def _load(t):
        import copy
        t2 = copy.copy(t)
        t2.ctx = ast.Load()
        return t2

    def assign(self, t, val, env):
        if isinstance(t, ast.Name):
            env[t.id] = val
        elif isinstance(t, ast.Subscript) and isinstance(t.slice, ast.Slice):
            base = self.eval(t.value, env)
            lo = self.eval(t.slice.lower, env) if t.slice.lower is not None else None
            hi = self.eval(t.slice.upper, env) if t.slice.upper is not None else None
            if t.slice.step is not None or not isinstance(base, AList):
                self.bad(t, 'slice store outside the subset')
            if any(isinstance(x, float) for x in (lo, hi)):
                raise RaiseSig('TypeError', ('slice indices must be integers',), t)
            if not all(x is None or isinstance(x, int) for x in (lo, hi)):
                self.bad(t, 'slice store with non-concrete bounds')
            base.l[lo:hi] = list(self.iterate(val, t))
        elif isinstance(t, ast.Subscript):
            base = self.eval(t.value, env)
            key = self.eval(t.slice, env)
            if isinstance(key, slice) and isinstance(base, AList):
                if any(isinstance(x, float) for x in (key.start, key.stop, key.step)):
                    raise RaiseSig('TypeError', ('slice indices must be integers',), t)
                base.l[key] = list(self.iterate(val, t))
            elif isinstance(base, ADict):
                base.d[key] = val
            elif isinstance(base, AList) and isinstance(key, float):
                raise RaiseSig('TypeError', ('list indices must be integers or slices, not float',), t)
            elif isinstance(base, AList) and isinstance(key, int):
                try:
                    base.l[key] = val
                except IndexError:
                    raise RaiseSig('IndexError', (key,), t)
            elif base is None:
                raise RaiseSig('TypeError', ("'NoneType' object does not support item assignment",), t)
            else:
                self.bad(t, 'subscript store on a non-container')
        elif isinstance(t, ast.Attribute):
            base = self.eval(t.value, env)
            if not isinstance(base, AObj):
                self.bad(t, 'attribute store outside the subset')
            if getattr(base, 'frozen', False):
                raise RaiseSig('AttributeError', (f"can't set attribute {t.attr}",), t)
            base.attrs[t.attr] = val
        elif isinstance(t, (ast.Tuple, ast.List)):
            items = self.iterate(val, t)
            star = [i for i, x in enumerate(t.elts) if isinstance(x, ast.Starred)]
            if star:
                k = star[0]
                after = len(t.elts) - k - 1
                if len(star) > 1 or len(items) < len(t.elts) - 1:
                    raise RaiseSig('ValueError', ('not enough values to unpack',), t)
                for e, v in zip(t.elts[:k], items[:k]):
                    self.assign(e, v, env)
                self.assign(t.elts[k].value, AList(items[k:len(items) - after]), env)
                for e, v in zip(t.elts[k + 1:], items[len(items) - after:] if after else []):
                    self.assign(e, v, env)
            else:
                if len(items) != len(t.elts):
                    raise RaiseSig('ValueError', (f'unpack: expected {len(t.elts)} values, got {len(items)}',), t)
                for e, v in zip(t.elts, items):
                    self.assign(e, v, env)
        else:
            self.bad(t, 'assignment target outside the subset')

    # ------------------------------------------------------------------ expressions
    def truth(self, v, node=None):
        if v is None or v is False:
            return False
        if v is True:
            return True
        if isinstance(v, (int, float, str, tuple, list, dict, set, frozenset)):
            return bool(v)
        if isinstance(v, ASet):
            return bool(v.s)
        if isinstance(v, ADict):
            return bool(v.d)
        if isinstance(v, AList):
            return bool(v.l)
        if isinstance(v, (AMatch, ALine, ARegex, ModuleFunc, APart, AIter, ACount, ALazy, AGen, CMatch)):
            return True
        if isinstance(v, AObj):
            if getattr(v, 'is_tuple', False):
                return len(v.fields) > 0
            home = self.class_home(v.cls)
            if home is not None and (home[0].funcs.get(f'{v.cls}.__bool__') or home[0].funcs.get(f'{v.cls}.__len__')):
                r = self.call_object_method(v, '__bool__' if home[0].funcs.get(f'{v.cls}.__bool__') else '__len__', [], node)
                return bool(r) if isinstance(r, (bool, int)) else self.truth(r, node)
            return True
        if isinstance(v, tuple) and v and v[0] in ('bound', 'builtin', 'extern', 'hostattr', 'partial', 'closure', 'class', 'closure-def', 'cmpkey', 'itemgetter'):
            return True
        if isinstance(v, Sym):
            if v.kind in ('group', 'parsed', 'unescaped', 'arglist', 'line', 'fstr', 'joined'):
                return True             # ('joined': continuation parts of which at least one carries text)
            if v.kind == 'bool':
                raise Unrecognised(self.rule, f'symbolic condition {v} cannot be decided', None)
        raise Unrecognised(self.rule, f'truthiness of {v!r} is not decidable' + (f' at {norm(node)[:60]}' if node is not None else ''), None)

    def iterate(self, v, node):
        if isinstance(v, AObj) and getattr(v, 'is_tuple', False):
            return [v.attrs[f] for f in v.fields]
        if isinstance(v, AGen):
            return list(self.py_iter(v, node))
        if isinstance(v, ALazy):
            out = []
            for x in v.iterator():
                out.append(x)
                if len(out) > 20000:
                    self.bad(node, 'unbounded lazy iterable consumed by a loop')
            return out
        if isinstance(v, AIter):
            rest = v.items[v.pos:]
            v.pos = len(v.items)
            return rest
        if isinstance(v, AList):
            return list(v.l)
        if isinstance(v, ADict):
            return list(v.d.keys())
        if isinstance(v, (list, tuple)):
            return list(v)
        if isinstance(v, (set, frozenset, ASet)):
            return sorted(v.s if isinstance(v, ASet) else v, key=repr, reverse=getattr(self, 'set_order', 'asc') == 'desc')
        if isinstance(v, dict):
            return list(v.keys())
        if type(v) is str:
            return list(v)          # a concrete host string: its characters
        self.bad(node, f'iteration over {type(v).__name__}')

    def py_iter(self, v, node):
        """a python iterator over an abstract iterable, lazily where the iterable is lazy"""
        if isinstance(v, AGen):
            def gen0():
                while True:
                    ok, item = v.next()
                    if not ok:
                        return
                    yield item
            return gen0()
        if isinstance(v, ALazy):
            return v.iterator()
        if isinstance(v, ACount):
            def gen():
                while True:
                    x = v.value
                    v.value += v.step
                    yield x
            return gen()
        if isinstance(v, AIter):
            def gen2():
                while v.pos < len(v.items):
                    v.pos += 1
                    yield v.items[v.pos - 1]
            return gen2()
        return iter(self.iterate(v, node))

    def binop(self, op, a, b, node):
        if isinstance(op, ast.Pow) and isinstance(a, int) and isinstance(b, int) and not isinstance(a, bool) and abs(a) > 1 and abs(b) > 100000:
            raise Unrecognised(self.rule, 'integer power beyond the evaluation bound', self.mod.rel)
        if isinstance(op, ast.LShift) and isinstance(b, int) and b > 1000000:
            raise Unrecognised(self.rule, 'shift beyond the evaluation bound', self.mod.rel)
        setlike = (ASet, set, frozenset, AKeys)
        if isinstance(op, (ast.Sub, ast.BitOr, ast.BitAnd, ast.BitXor)) and isinstance(a, setlike) and isinstance(b, setlike):
            sa_, sb_ = (set(x.s) if isinstance(x, ASet) else set(x) for x in (a, b))
            r = sa_ - sb_ if isinstance(op, ast.Sub) else sa_ | sb_ if isinstance(op, ast.BitOr) else sa_ & sb_ if isinstance(op, ast.BitAnd) else sa_ ^ sb_
            return frozenset(r) if isinstance(a, frozenset) and not isinstance(b, ASet) else ASet(r)
        if isinstance(a, (int, float, str)) and isinstance(b, (int, float, str)) and type(a) == type(b) or \
                (isinstance(a, (int, float)) and isinstance(b, (int, float))):
            try:
                if isinstance(op, ast.Add):
                    return a + b
                if isinstance(op, ast.Sub):
                    return a - b
                if isinstance(op, ast.Mult):
                    return a * b
                if isinstance(a, (int, float)) and isinstance(b, (int, float)):
                    if isinstance(op, ast.Div):
                        return a / b
                    if isinstance(op, ast.FloorDiv):
                        return a // b
                    if isinstance(op, ast.Mod):
                        return a % b
                    if isinstance(op, ast.Pow):
                        return a ** b
            except TypeError:
                pass
            except ZeroDivisionError:
                raise RaiseSig('ZeroDivisionError', ('division by zero',), node)
            except (OverflowError, ValueError) as exc:
                raise RaiseSig(type(exc).__name__, (str(exc),), node)
        if isinstance(a, Sym) or isinstance(b, Sym) or isinstance(a, ALine) or isinstance(b, ALine):
            return Sym('binop', type(op).__name__, a, b)
        if isinstance(a, AList) and isinstance(b, AList) and isinstance(op, ast.Add):
            return AList(a.l + b.l)
        plain = (int, float, str, bool, type(None))
        if isinstance(a, plain) and isinstance(b, plain):
            # fully concrete host values: the host operator itself (including its TypeError for unsupported operand types)
            import operator as _op
            fn = {ast.Add: _op.add, ast.Sub: _op.sub, ast.Mult: _op.mul, ast.Div: _op.truediv, ast.FloorDiv: _op.floordiv, ast.Mod: _op.mod, ast.Pow: _op.pow,
                  ast.LShift: _op.lshift, ast.RShift: _op.rshift, ast.BitAnd: _op.and_, ast.BitOr: _op.or_, ast.BitXor: _op.xor}.get(type(op))
            if fn is not None and not (isinstance(op, ast.Mult) and ((isinstance(a, str) and isinstance(b, int) and b > 100000) or (isinstance(b, str) and isinstance(a, int) and a > 100000))):
                try:
                    return fn(a, b)
                except (TypeError, ZeroDivisionError, OverflowError, ValueError) as exc:
                    raise RaiseSig(type(exc).__name__, (str(exc),), node)
        if isinstance(op, ast.Mult) and ((isinstance(a, AList) and isinstance(b, int) and not isinstance(b, bool)) or (isinstance(b, AList) and isinstance(a, int) and not isinstance(a, bool))):
            lst, n = (a, b) if isinstance(a, AList) else (b, a)
            if n > 100000:
                self.bad(node, 'list repetition beyond the evaluation bound')
            return AList(lst.l * n)
        if isinstance(op, ast.Mult) and ((isinstance(a, (AList, str)) and isinstance(b, float)) or (isinstance(b, (AList, str)) and isinstance(a, float))):
            raise RaiseSig('TypeError', ("can't multiply sequence by non-int of type 'float'",), node)
        self.bad(node, f'binary operation on {type(a).__name__}, {type(b).__name__}')

    def eval(self, e, env):
        if isinstance(e, ast.Constant):
            return e.value
        if isinstance(e, ast.Name):
            if e.id in env:
                return env[e.id]
            if e.id in self.globals:
                return self.globals[e.id]
            if e.id in self.mod.assigns and len(self.mod.assigns[e.id]) == 1:
                # module-level constant (table, tuple of regexes ...): evaluated once, lazily
                if e.id not in self._lazy:
                    from .core import const_eval, NotConstant
                    node0 = self.mod.assigns[e.id][0]
                    if (isinstance(node0, ast.Dict) and not node0.keys) or (isinstance(node0, ast.List) and not node0.elts):
                        self._lazy[e.id] = self.eval(node0, {})        # an empty module-level container is mutable state (a cache): a heap object
                    else:
                        try:
                            self._lazy[e.id] = const_eval(self.mod, node0)
                        except Exception:
                            self._lazy[e.id] = self.eval(node0, {})
                return self._lazy[e.id]
            if e.id in ('set', 'frozenset', 'sorted', 'any', 'all', 'zip', 'abs', 'sum', 'map', 'filter'):
                return ('builtin', e.id)
            if e.id in self.mod.imports and self.mod.imports[e.id][1] is None:
                full = self.mod.imports[e.id][0]
                # `import a.b` binds the name a (the top-level package); `import a.b as c` binds the submodule
                return ('module', full.split('.')[0] if full.split('.')[0] == e.id else full)
            if e.id in self.mod.imports and self.mod.imports[e.id][0] in ('functools', 'itertools', 'operator', 'math', 'statistics', 're', 'collections', 'copy', 'urllib.parse', 'os.path',
                                                                          'pathlib', 'json', 'calendar', 'datetime', 'contextlib', 'csv', 'importlib.resources'):
                return ('hostattr', f'{self.mod.imports[e.id][0]}.{self.mod.imports[e.id][1]}')
            if e.id in self.mod.imports and getattr(self, 'repo', None) is not None:
                modname, orig = self.mod.imports[e.id]
                other = self.repo.resolve_module(modname)
                # a name the other module itself imports from a third module of the package (re-export): follow it to where it is defined
                hops = 0
                while other is not None and orig not in other.classes and orig not in other.funcs and orig not in other.assigns and orig in other.imports and other.imports[orig][1] is not None \
                        and hops < 4:
                    nxt = self.repo.resolve_module(other.imports[orig][0])
                    if nxt is None:
                        break
                    other, orig, hops = nxt, other.imports[orig][1], hops + 1
                if other is not None:
                    if orig in other.classes:
                        return ('class', orig)
                    if orig in other.funcs:
                        return ('extern', other.name, orig)
                    try:
                        if orig in other.regexes():
                            return ARegex(orig)
                    except Exception:
                        pass
                    if orig in other.assigns and len(other.assigns[orig]) == 1:
                        from .core import const_eval
                        try:
                            return const_eval(other, other.assigns[orig][0])
                        except Exception:
                            pass
                return ('extern', modname, orig)
            if e.id in ('len', 'next', 'iter', 'reversed', 'list', 'enumerate', 'isinstance', 'str', 'int', 'float', 'dict', 'tuple', 'range', 'bool', 'min', 'max', 'complex',
                        'ord', 'chr', 'callable', 'object', 'type', 'getattr', 'hasattr', 'setattr', 'slice', 'super', 'issubclass', 'repr', 'divmod', 'round', 'pow', 'id'):
                return ('builtin', e.id)
            if e.id in ('Exception', 'BaseException', 'ValueError', 'TypeError', 'KeyError', 'IndexError', 'ArithmeticError', 'ZeroDivisionError', 'OverflowError', 'AttributeError',
                        'LookupError', 'RuntimeError', 'StopIteration', 'RecursionError', 'OSError', 'NotImplementedError', 'AssertionError', 'UnicodeError'):
                return ('class', e.id)
            self.bad(e, f'unknown name {e.id}')
        if isinstance(e, ast.Dict):
            out = ADict()
            for k, v in zip(e.keys, e.values):
                if k is None:
                    src = self.eval(v, env)
                    if not isinstance(src, ADict):
                        self.bad(e, 'dict unpacking of a non-dict')
                    out.d.update(src.d)
                else:
                    out.d[self.eval(k, env)] = self.eval(v, env)
            return out
        if isinstance(e, (ast.List, ast.Tuple)):
            items = []
            for x in e.elts:
                if isinstance(x, ast.Starred):
                    items.extend(self.iterate(self.eval(x.value, env), x))
                else:
                    items.append(self.eval(x, env))
            return AList(items) if isinstance(e, ast.List) else tuple(items)
        if isinstance(e, ast.Set):
            items = [self.eval(x, env) for x in e.elts]
            if not all(isinstance(x, (str, int, float, tuple)) or x is None for x in items):
                self.bad(e, 'set of non-constant items')
            return ASet(items)
        if isinstance(e, ast.JoinedStr):
            parts = []
            symbolic = False
            for v in e.values:
                if isinstance(v, ast.Constant):
                    parts.append(str(v.value))
                elif isinstance(v, ast.FormattedValue):
                    val = self.eval(v.value, env)
                    if isinstance(val, (int, str)) and not isinstance(val, bool) and v.format_spec is None and v.conversion == -1:
                        parts.append(str(val))
                    elif (val is None or isinstance(val, (int, float, str, bool))) and (v.format_spec is None or isinstance(v.format_spec, ast.JoinedStr)):
                        # concrete value: the host's own formatting (conversion and format spec evaluated)
                        spec = self.eval(v.format_spec, env) if v.format_spec is not None else ''
                        if not isinstance(spec, str):
                            parts.append(val)
                            symbolic = True
                            continue
                        conv = {-1: lambda x: x, 115: str, 114: repr, 97: ascii}[v.conversion](val)
                        try:
                            parts.append(format(conv, spec))
                        except (ValueError, TypeError) as exc:
                            raise RaiseSig(type(exc).__name__, (str(exc),), e)
                    else:
                        parts.append(val)
                        symbolic = True
            if not symbolic:
                return ''.join(parts)
            return Sym('fstr', tuple(parts))
        if isinstance(e, ast.NamedExpr):
            val = self.eval(e.value, env)
            self.assign(e.target, val, env)
            return val
        if isinstance(e, ast.IfExp):
            return self.eval(e.body if self.truth(self.eval(e.test, env), e.test) else e.orelse, env)
        if isinstance(e, ast.BoolOp):
            val = None
            for v in e.values:
                val = self.eval(v, env)
                t = self.truth(val, v)
                if isinstance(e.op, ast.And) and not t:
                    return val
                if isinstance(e.op, ast.Or) and t:
                    return val
            return val
        if isinstance(e, ast.UnaryOp):
            v = self.eval(e.operand, env)
            if isinstance(e.op, ast.Not):
                return not self.truth(v, e.operand)
            if isinstance(e.op, ast.USub) and isinstance(v, (int, float)):
                return -v
            self.bad(e, 'unary operator outside the subset')
        if isinstance(e, ast.BinOp):
            return self.binop(e.op, self.eval(e.left, env), self.eval(e.right, env), e)
        if isinstance(e, ast.Compare):
            left = self.eval(e.left, env)
            for op, c in zip(e.ops, e.comparators):
                right = self.eval(c, env)
                r = self.compare(op, left, right, e)
                if not r:
                    return False
                left = right
            return True
        if isinstance(e, ast.Subscript):
            base = self.eval(e.value, env)
            if isinstance(e.slice, ast.Slice):
                lo = self.eval(e.slice.lower, env) if e.slice.lower is not None else None
                hi = self.eval(e.slice.upper, env) if e.slice.upper is not None else None
                if e.slice.step is not None:
                    step = self.eval(e.slice.step, env)
                    if isinstance(base, (AList, str, tuple, list)) and any(isinstance(x, float) for x in (lo, hi, step)):
                        raise RaiseSig('TypeError', ('slice indices must be integers',), e)
                    if not all(x is None or isinstance(x, int) for x in (lo, hi, step)) or not isinstance(base, (AList, str, tuple, list)):
                        self.bad(e, 'extended slice outside the subset')
                    if step == 0:
                        raise RaiseSig('ValueError', ('slice step cannot be zero',), e)
                    return AList(base.l[lo:hi:step]) if isinstance(base, AList) else base[lo:hi:step]
                if isinstance(base, (AList, str)) and any(isinstance(x, float) for x in (lo, hi)):
                    raise RaiseSig('TypeError', ('slice indices must be integers',), e)
                if isinstance(base, AList) and all(x is None or isinstance(x, int) for x in (lo, hi)):
                    return AList(base.l[lo:hi])
                if isinstance(base, ALine) and lo in (None, 0) and isinstance(hi, Sym) and hi.kind == 'start' and hi.args[-1] == base.lid and base.cont:
                    return APart(base)          # the physical line up to its continuation marker
                r = self.slice_hook(base, lo, hi, e)
                if r is not NotImplemented:
                    return r
                if isinstance(base, (str, tuple, list)) and all(x is None or isinstance(x, int) for x in (lo, hi)):
                    return base[lo:hi]
                return Sym('slice', base, lo, hi)
            key = self.eval(e.slice, env)
            if isinstance(key, slice) and isinstance(base, (AList, str, tuple)):
                if any(isinstance(x, float) for x in (key.start, key.stop, key.step)):
                    raise RaiseSig('TypeError', ('slice indices must be integers',), e)
                return AList(base.l[key]) if isinstance(base, AList) else base[key]
            if isinstance(base, ADict):
                if key not in base.d:
                    fac = getattr(base, 'default_factory', None)
                    if fac is not None:
                        base.d[key] = self.apply(fac, [], e)
                        return base.d[key]
                    if isinstance(base, ADictObj):
                        home = self.class_home(base.cls)
                        if home is not None and f'{base.cls}.__missing__' in home[0].funcs:
                            return self.call_object_method(base, '__missing__', [key], e)
                    raise RaiseSig('KeyError', (key,), e)
                return base.d[key]
            if isinstance(base, (AList, str)) and isinstance(key, float):
                raise RaiseSig('TypeError', ('indices must be integers or slices, not float',), e)
            if isinstance(base, str) and isinstance(key, int):
                try:
                    return base[key]
                except IndexError:
                    raise RaiseSig('IndexError', (key,), e)
            if isinstance(base, str) and (key is None or isinstance(key, (str, tuple, AList, ADict))):
                raise RaiseSig('TypeError', ('string indices must be integers',), e)
            if isinstance(base, AList):
                if not isinstance(key, int):
                    self.bad(e, 'list index is not a concrete int')
                try:
                    return base.l[key]
                except IndexError:
                    raise RaiseSig('IndexError', (key,), e)
            if isinstance(base, (tuple, list)):
                return base[key]
            if isinstance(base, dict):
                if key not in base:
                    raise RaiseSig('KeyError', (key,), e)
                return base[key]
            if isinstance(base, AObj) and getattr(base, 'is_tuple', False) and isinstance(key, int) and not isinstance(key, bool):
                try:
                    return [base.attrs[f] for f in base.fields][key]
                except IndexError:
                    raise RaiseSig('IndexError', (key,), e)
            if isinstance(base, AMatch) and isinstance(key, (str, int)):
                return self.group(base, key, e)
            if isinstance(base, CMatch) and isinstance(key, (str, int)):
                try:
                    return base.m[key]
                except IndexError as exc:
                    raise RaiseSig('IndexError', (str(exc),), e)
            if isinstance(base, Sym):
                return Sym('item', base, key)
            if base is None:
                raise RaiseSig('TypeError', ("'NoneType' object is not subscriptable",), e)
            self.bad(e, f'subscript of {type(base).__name__}')
        if isinstance(e, ast.Attribute):
            base = self.eval(e.value, env)
            if isinstance(base, tuple) and base and base[0] in ('module', 'hostattr') and f'{base[1]}.{e.attr}' in ('os.sep', 'os.path.sep'):
                return '/'
            if isinstance(base, tuple) and base and base[0] in ('module', 'hostattr') and f'{base[1]}.{e.attr}' in ('math.inf', 'math.nan', 'math.pi', 'math.e', 'math.tau'):
                import math as _m
                return getattr(_m, e.attr)
            if isinstance(base, tuple) and base and base[0] == 'module':
                return ('hostattr', f'{base[1]}.{e.attr}')
            if isinstance(base, tuple) and base and base[0] == 'hostattr':
                return ('hostattr', f'{base[1]}.{e.attr}')
            if isinstance(base, ADictObj) and (e.attr in base.attrs or e.attr in self.class_constants(base.cls)):
                return base.attrs[e.attr] if e.attr in base.attrs else self.class_constants(base.cls)[e.attr]
            if isinstance(base, (ARegex, AList, ADict, str)) and not isinstance(getattr(e, 'ctx', None), ast.Store):
                return ('bound', base, e.attr)
            if isinstance(base, CMatch):
                if e.attr in ('lastindex', 'lastgroup', 'pos', 'endpos', 'string'):
                    return getattr(base.m, e.attr)
                if e.attr == 're':
                    return base.regex
                return ('bound', base, e.attr)
            if isinstance(base, AObj):
                if e.attr in base.attrs:
                    return base.attrs[e.attr]
                consts = self.class_constants(base.cls)
                if e.attr in consts:
                    return consts[e.attr]       # a class-level constant read through the instance
                if isinstance(getattr(e, 'ctx', None), ast.Load):
                    return ('bound', base, e.attr)
            if isinstance(base, tuple) and len(base) == 2 and base[0] == 'class' and isinstance(base[1], str):
                consts = self.class_constants(base[1])
                if e.attr in consts:
                    return consts[e.attr]
            if isinstance(base, tuple) and base and base[0] == 'partial' and e.attr in ('func', 'args', 'keywords'):
                return base[1] if e.attr == 'func' else tuple(base[2]) if e.attr == 'args' else ADict(dict(base[3]) if len(base) > 3 else {})
            if isinstance(base, Sym):
                if base.kind == 'exc' and len(base.args) > 1:
                    a = base.args[1]
                    if e.attr == 'error' and len(a) > 0:
                        return a[0]
                    if e.attr == 'line' and len(a) > 1:
                        return a[1]
                    if e.attr == 'column_number' and len(a) > 2:
                        return a[2]
                    if e.attr == 'line_number':
                        return a[3] if len(a) > 3 else None
                if base.kind == 'exc':
                    attrs = self.exception_attrs(base.args[0], base.args[1] if len(base.args) > 1 else (), e)
                    if attrs is not None and e.attr in attrs:
                        return attrs[e.attr]
                    return Sym('excattr', base.args[0], e.attr)
                return Sym('attr', base, e.attr)
            self.bad(e, 'attribute access outside the subset')
        if isinstance(e, ast.Call):
            return self.call(e, env)
        if isinstance(e, ast.GeneratorExp):
            # lazy, like the host: the outermost iterable is evaluated now, everything else on demand
            first = self.eval(e.generators[0].iter, env)
            genv = dict(env)
            return ALazy(lambda: self.comp_lazy(e, 0, genv, first))
        if isinstance(e, ast.ListComp):
            out = []
            self.comp(e, 0, dict(env), out)
            return AList(out)
        if isinstance(e, ast.Lambda):
            return ('closure', e, dict(env))
        if isinstance(e, ast.Yield):
            if not self._gen_stack:
                self.bad(e, 'yield outside a generator call')
            self._gen_stack[-1].yield_(self.eval(e.value, env) if e.value is not None else None)
            return None
        if isinstance(e, ast.YieldFrom):
            if not self._gen_stack:
                self.bad(e, 'yield from outside a generator call')
            src = self.eval(e.value, env)
            for item in self.py_iter(src, e.value):
                self._gen_stack[-1].yield_(item)
            return None
        if isinstance(e, ast.DictComp):
            pairs = []
            fake = ast.GeneratorExp(elt=ast.Tuple(elts=[e.key, e.value], ctx=ast.Load()), generators=e.generators)
            self.comp(fake, 0, dict(env), pairs)
            out = ADict()
            for k, v in pairs:
                out.d[k] = v
            return out
        if isinstance(e, ast.SetComp):
            items = []
            self.comp(ast.GeneratorExp(elt=e.elt, generators=e.generators), 0, dict(env), items)
            if not all(isinstance(x, (str, int, float, tuple)) or x is None for x in items):
                self.bad(e, 'set of non-constant items')
            return ASet(items)
        self.bad(e, f'expression kind {type(e).__name__} outside the interpreted subset')

    @staticmethod
    def exc_matches(cls, names):
        """does an exception of class `cls` match an except clause / isinstance test naming `names` (host exception hierarchy)"""
        from .raises import is_subclass
        if cls == '<reraise>':
            return False
        for n in names:
            for cand in {n, n.rsplit('.', 1)[-1]}:
                if is_subclass(cls, cand) or is_subclass(cls.rsplit('.', 1)[-1], cand):
                    return True
        return False

    def match_pattern(self, pat, v, binds, env, at):
        """structural pattern matching (PEP 634) of an abstract value; captures go to `binds`"""
        if isinstance(pat, ast.MatchAs):
            if pat.pattern is not None and not self.match_pattern(pat.pattern, v, binds, env, at):
                return False
            if pat.name is not None:
                binds[pat.name] = v
            return True
        if isinstance(pat, ast.MatchOr):
            for alt in pat.patterns:
                b2 = {}
                if self.match_pattern(alt, v, b2, env, at):
                    binds.update(b2)
                    return True
            return False
        if isinstance(pat, ast.MatchValue):
            return self.compare(ast.Eq(), v, self.eval(pat.value, env), at)
        if isinstance(pat, ast.MatchSingleton):
            return (v is None and pat.value is None) or (isinstance(v, bool) and v is pat.value)
        if isinstance(pat, ast.MatchClass):
            if pat.kwd_attrs or len(pat.patterns) > 1:
                self.bad(at, 'class pattern with attribute sub-patterns')
            fake = ast.Call(func=ast.Name(id='isinstance', ctx=ast.Load()), args=[ast.Constant(value=None), pat.cls], keywords=[])
            ast.copy_location(fake, at)
            ok = self.call_builtin('isinstance', [v, self.eval(pat.cls, env)], fake)
            if not ok:
                return False
            if pat.patterns:
                # builtin types (str(), int(), ...) match the subject itself with their single positional sub-pattern
                if not (isinstance(pat.cls, ast.Name) and pat.cls.id in ('str', 'int', 'float', 'bool', 'list', 'dict', 'tuple', 'bytes', 'set', 'frozenset')):
                    self.bad(at, 'class pattern with a positional sub-pattern')
                return self.match_pattern(pat.patterns[0], v, binds, env, at)
            return True
        if isinstance(pat, ast.MatchSequence):
            if isinstance(v, (str, ADict, dict)) or not isinstance(v, (AList, list, tuple)):
                if isinstance(v, (Sym, ALine)):
                    self.bad(at, 'sequence pattern on an abstract value')
                return False
            items = v.l if isinstance(v, AList) else list(v)
            star = [i for i, p_ in enumerate(pat.patterns) if isinstance(p_, ast.MatchStar)]
            if not star:
                if len(items) != len(pat.patterns):
                    return False
                return all(self.match_pattern(p_, x, binds, env, at) for p_, x in zip(pat.patterns, items))
            k = star[0]
            before, after = pat.patterns[:k], pat.patterns[k + 1:]
            if len(items) < len(before) + len(after):
                return False
            if not all(self.match_pattern(p_, x, binds, env, at) for p_, x in zip(before, items)):
                return False
            tail = items[len(items) - len(after):] if after else []
            if not all(self.match_pattern(p_, x, binds, env, at) for p_, x in zip(after, tail)):
                return False
            if pat.patterns[k].name is not None:
                binds[pat.patterns[k].name] = AList(items[len(before):len(items) - len(after)])
            return True
        if isinstance(pat, ast.MatchMapping):
            if not isinstance(v, (ADict, dict)):
                if isinstance(v, (Sym, ALine)):
                    self.bad(at, 'mapping pattern on an abstract value')
                return False
            d = v.d if isinstance(v, ADict) else v
            keys = [self.eval(k, env) for k in pat.keys]
            for k, p_ in zip(keys, pat.patterns):
                if k not in d or not self.match_pattern(p_, d[k], binds, env, at):
                    return False
            if pat.rest is not None:
                binds[pat.rest] = ADict({k: x for k, x in d.items() if k not in keys})
            return True
        self.bad(at, f'pattern kind {type(pat).__name__}')

    def comp_lazy(self, e, ix, env, first=None):
        if ix == len(e.generators):
            yield self.eval(e.elt, env)
            return
        g = e.generators[ix]
        src = first if (ix == 0 and first is not None) else self.eval(g.iter, env)
        for item in self.py_iter(src, g.iter):
            self.assign(g.target, item, env)
            if all(self.truth(self.eval(c, env), c) for c in g.ifs):
                yield from self.comp_lazy(e, ix + 1, env)

    def comp(self, e, ix, env, out):
        if ix == len(e.generators):
            out.append(self.eval(e.elt, env))
            return
        g = e.generators[ix]
        for item in self.iterate(self.eval(g.iter, env), g.iter):
            self.assign(g.target, item, env)
            if all(self.truth(self.eval(c, env), c) for c in g.ifs):
                self.comp(e, ix + 1, env, out)

    def compare(self, op, a, b, node):
        if isinstance(op, (ast.Is, ast.IsNot)):
            tok = ('builtin', 'typeof', 'class', 'module', 'hostattr', 'extern')
            same = a is b or (a is None and b is None) or \
                (isinstance(a, tuple) and isinstance(b, tuple) and a and b and a[0] in tok and b[0] in tok and a == b)      # names of host objects
            return same if isinstance(op, ast.Is) else not same
        if isinstance(op, (ast.In, ast.NotIn)):
            if isinstance(b, ADict):
                r = a in b.d
            elif isinstance(b, AList):
                r = any(self._eq(a, x) for x in b.l)
            elif isinstance(b, ASet):
                if isinstance(a, (Sym, ALine, ADict, AList)):
                    self.bad(node, 'membership of an abstract value in a set')
                r = a in b.s
            elif isinstance(b, (tuple, list, set, frozenset, dict, str)) and not isinstance(a, (Sym, ALine)):
                r = a in b
            elif a in ('\n', '\r', '\r\n') and isinstance(b, (ALine, APart)):
                r = False       # an abstract line / part stands for the text of one line: no line end inside
            elif a == '\\' and isinstance(b, (ALine, APart)):
                # the abstract lines of the scenarios stand for text whose only backslash is the continuation mark (backslashes inside literals are the concrete engines' business)
                r = isinstance(b, ALine) and b.cont is not None
            else:
                self.bad(node, 'membership test outside the subset')
            return r if isinstance(op, ast.In) else not r
        if isinstance(op, (ast.Eq, ast.NotEq)):
            r = self._eq(a, b)
            return r if isinstance(op, ast.Eq) else not r
        if isinstance(a, (int, float)) and isinstance(b, (int, float)) and not isinstance(a, bool) and not isinstance(b, bool):
            return {ast.Lt: a < b, ast.LtE: a <= b, ast.Gt: a > b, ast.GtE: a >= b}[type(op)]
        if isinstance(a, str) and isinstance(b, str):
            return {ast.Lt: a < b, ast.LtE: a <= b, ast.Gt: a > b, ast.GtE: a >= b}[type(op)]
        if isinstance(a, (int, float)) and isinstance(b, (int, float)):
            return {ast.Lt: a < b, ast.LtE: a <= b, ast.Gt: a > b, ast.GtE: a >= b}[type(op)]        # bool is an int for the host
        if isinstance(a, tuple) and isinstance(b, tuple) and not (a and isinstance(a[0], str) and a[0] in ('builtin', 'extern', 'closure', 'partial', 'class', 'module', 'hostattr')):
            for x, y in zip(a, b):
                if not self._eq(x, y):
                    return self.compare(op, x, y, node)
            return {ast.Lt: len(a) < len(b), ast.LtE: len(a) <= len(b), ast.Gt: len(a) > len(b), ast.GtE: len(a) >= len(b)}[type(op)]
        if (a is None or b is None or isinstance(a, (ADict,)) or isinstance(b, (ADict,))) or \
                (isinstance(a, (str, int, float)) and isinstance(b, (str, int, float))):
            raise RaiseSig('TypeError', (f"'<' not supported between instances of '{type(a).__name__}' and '{type(b).__name__}'",), node)
        self.bad(node, f'ordering comparison of {type(a).__name__}, {type(b).__name__}')

    @staticmethod
    def _eq(a, b):
        if isinstance(a, (ASet, set, frozenset)) and isinstance(b, (ASet, set, frozenset)):
            return (a.s if isinstance(a, ASet) else set(a)) == (b.s if isinstance(b, ASet) else set(b))
        if isinstance(a, AList) and isinstance(b, AList):
            return a is b or (len(a.l) == len(b.l) and all(Interp._eq(x, y) for x, y in zip(a.l, b.l)))
        if isinstance(a, ADict) and isinstance(b, ADict):
            return a is b or (set(a.d) == set(b.d) and all(Interp._eq(a.d[k], b.d[k]) for k in a.d))
        if isinstance(a, (ADict, AList, ALine, AMatch, APart)) or isinstance(b, (ADict, AList, ALine, AMatch, APart)):
            return a is b
        if isinstance(a, Sym) or isinstance(b, Sym):
            if isinstance(a, Sym) and isinstance(b, Sym):
                if a == b:
                    return True
            raise Unrecognised('E6', f'equality of symbolic values {a!r} == {b!r} is not decidable')
        return a == b

    def group(self, m, key, node):
        groups = m.line.groups
        if key == 0:
            return Sym('group', m.regex, 0, m.line.lid)
        if key not in groups:
            raise Unrecognised(self.rule, f'{norm(node)}: group {key!r} is not a group of {m.regex} (regex and code disagree)', self.mod.rel)
        v = groups[key]
        if v is None:
            return None
        if v == 'sym':
            return Sym('group', m.regex, key, m.line.lid)
        return v

    # ------------------------------------------------------------------ calls
    def eval_args(self, e, env):
        args = []
        for a in e.args:
            if isinstance(a, ast.Starred):
                args.extend(self.iterate(self.eval(a.value, env), a))
            else:
                args.append(self.eval(a, env))
        return args

    def call(self, e, env):
        f = e.func
        args = None
        if isinstance(f, ast.Attribute):
            base = self.eval(f.value, env)
            args = self.eval_args(e, env)
            if e.keywords and not (isinstance(base, tuple) and base and base[0] in ('module', 'hostattr')) and not (isinstance(base, AList) and f.attr == 'sort') \
                    and not isinstance(base, (Sym, AObj, ARegex)) and not getattr(base, '_host_object', False) and not (type(base) is str and f.attr == 'format'):
                self.bad(e, 'keyword arguments in a method call')
            self._kwargs = {}
            for kw in e.keywords:
                if kw.arg:
                    self._kwargs[kw.arg] = self.eval(kw.value, env)
                else:
                    extra = self.eval(kw.value, env)
                    extra = extra.d if isinstance(extra, ADict) else extra
                    if not isinstance(extra, dict) or not all(isinstance(k, str) for k in extra):
                        self.bad(e, '** argument that is not a dict with text keys')
                    self._kwargs.update(extra)
            return self.call_method(base, f.attr, args, e)
        if isinstance(f, ast.Name) and f.id in self.oracles and f.id not in env:
            return self.oracles[f.id](self.eval_args(e, env), e)
        fn = self.eval(f, env)
        args = self.eval_args(e, env)
        kwargs = {}
        for kw in e.keywords:
            if kw.arg is None:
                extra = self.eval(kw.value, env)
                extra = extra.d if isinstance(extra, ADict) else extra
                if not isinstance(extra, dict) or not all(isinstance(k, str) for k in extra):
                    self.bad(e, '** argument that is not a dict with text keys')
                kwargs.update(extra)
                continue
            kwargs[kw.arg] = self.eval(kw.value, env)
        if kwargs and isinstance(fn, tuple) and fn and fn[0] == 'class':
            obj = self.instantiate(fn[1], args, kwargs, e)
            if obj is not None:
                return obj
            return Sym('instance', fn[1], tuple(args), tuple(sorted(kwargs.items(), key=lambda kv: kv[0])))
        if kwargs and isinstance(fn, tuple) and fn and fn[0] == 'hostattr':
            self._kwargs = kwargs
            r = self.call_value_hook(fn, args, e)
            self._kwargs = {}
            if r is not NotImplemented:
                return r
        if kwargs and isinstance(fn, tuple) and fn and fn[0] == 'builtin' and fn[1] in ('sorted', 'min', 'max', 'sum', 'enumerate', 'int', 'str', 'print', 'next'):
            self._kwargs = kwargs
            try:
                return self.call_builtin(fn[1], args, e)
            finally:
                self._kwargs = {}
        if kwargs and isinstance(fn, tuple) and fn and fn[0] == 'partial':
            return self.apply(fn, args, e, kwargs)
        if kwargs and not isinstance(fn, ModuleFunc):
            self.bad(e, 'keyword arguments outside the subset')
        if isinstance(fn, tuple) and fn[0] == 'builtin':
            return self.call_builtin(fn[1], args, e)
        if isinstance(fn, ModuleFunc):
            if fn.node.name == 'parse_expression' and not getattr(self, 'concrete_parse', False):
                if self.fail_parse is not None and self.fail_parse(args[0]):
                    raise RaiseSig('BareScriptParserError', (Sym('inner-error'), args[0], Sym('inner-column')), e)
                return Sym('parsed', args[0])
            if fn.node.name in self.oracles:
                return self.oracles[fn.node.name](args, e)         # a local alias of an oracle-answered function
            if fn.mod is not None and fn.mod is not self.mod and getattr(self, 'repo', None) is not None:
                return self.sub_interp(fn.mod).call_function(fn.node, args, e, kwargs)
            return self.call_function(fn.node, args, e, kwargs)
        if isinstance(fn, tuple) and fn and fn[0] == 'class':
            obj = self.instantiate(fn[1], args, kwargs, e)
            if obj is not None:
                return obj
            return Sym('instance', fn[1], tuple(args))
        if isinstance(fn, tuple) and fn and fn[0] in ('closure', 'partial', 'bound', 'closure-def'):
            return self.apply(fn, args, e)
        r = self.call_value_hook(fn, args, e)
        if r is not NotImplemented:
            return r
        if isinstance(fn, tuple) and fn and fn[0] == 'extern' and fn[2] in self.oracles:
            return self.oracles[fn[2]](args, e)
        if isinstance(fn, tuple) and fn and fn[0] == 'extern' and getattr(self, 'repo', None) is not None:
            try:
                other = self.repo.resolve_module(fn[1]) if fn[1].startswith('.') else self.repo.module(fn[1])
            except Unrecognised:
                return Sym('external', fn[1], fn[2])        # a third-party function: opaque result
            if other is not None and fn[2] in other.funcs:
                return self.sub_interp(other).call_function(other.funcs[fn[2]], args, e, kwargs)
            if other is not None and fn[2] in other.imports:
                try:
                    node = other.func(fn[2], self.rule)
                except Unrecognised:
                    node = None
                if node is not None:
                    return self.call_function(node, args, e, kwargs)
        if fn is None or isinstance(fn, (bool, int, float, str, AList, ADict)):
            raise RaiseSig('TypeError', (f'{type(fn).__name__} object is not callable',), e)
        self.bad(e, 'call outside the interpreted subset')

    def class_home(self, cname):
        """(module, ClassDef) of a repository class that is a plain class: no host base class, not an exception"""
        mods = [self.mod]
        repo = getattr(self, 'repo', None)
        if repo is not None:
            for nm in _package_modules(repo):
                try:
                    m = repo.module(nm)
                except Exception:
                    continue
                if m is not self.mod:
                    mods.append(m)
        for m in mods:
            node = getattr(m, 'classes', {}).get(cname)
            if node is not None:
                if cname.endswith(('Error', 'Exception')):
                    return None
                bases = [norm(b) for b in node.bases]
                ok_bases = all(b in ('object', 'NamedTuple', 'typing.NamedTuple', 'dict') for b in bases)
                return (m, node) if ok_bases else None
        return None

    def class_constants(self, cname):
        """simple class-level assignments (NAME = <expression over literals and earlier constants>) of a repository class, evaluated once"""
        cache = self.__dict__.setdefault('_class_consts', {})
        if cname in cache:
            return cache[cname]
        cache[cname] = out = {}
        repo = getattr(self, 'repo', None)
        mods = [self.mod] + ([repo.module(n) for n in _package_modules(repo) if n != self.mod.name] if repo is not None else [])
        for m in mods:
            node = getattr(m, 'classes', {}).get(cname)
            if node is None:
                continue
            it = self if m is self.mod or repo is None else self.sub_interp(m)
            for st in node.body:
                if isinstance(st, ast.Assign) and len(st.targets) == 1 and isinstance(st.targets[0], ast.Name):
                    try:
                        out[st.targets[0].id] = it.eval(st.value, dict(out))
                    except (Unrecognised, RaiseSig):
                        pass
            break
        return out

    def _class_scope(self, func_node):
        """the names visible to a method's default expressions: the constants of its class body"""
        parent = getattr(func_node, '_parent', None)
        return dict(self.class_constants(parent.name)) if isinstance(parent, ast.ClassDef) else {}

    def exception_attrs(self, cname, args, at):
        """attributes a repository exception class's own __init__ stores on the instance (evaluated on the raise arguments); None when the class has no __init__ here
        or its constructor is outside the subset"""
        cache = self.__dict__.setdefault('_exc_attrs', {})
        key = (cname, id(args))
        if key in cache and cache[key][0] is args:
            return cache[key][1]
        mods = [self.mod]
        repo = getattr(self, 'repo', None)
        if repo is not None:
            for nm in _package_modules(repo):
                try:
                    m = repo.module(nm)
                except Exception:
                    continue
                if m is not self.mod:
                    mods.append(m)
        out = None
        for m in mods:
            if cname in getattr(m, 'classes', {}):
                init = m.funcs.get(f'{cname}.__init__')
                if init is not None and isinstance(args, (tuple, list)):
                    it = self if m is self.mod else self.sub_interp(m)
                    obj = AObj(cname)
                    prev = getattr(it, 'current_self', None)
                    it.current_self = obj
                    try:
                        params = [a.arg for a in init.args.args]
                        vals = [obj] + list(args)
                        defaults = init.args.defaults
                        env = {}
                        for i, pn in enumerate(params):
                            if i < len(vals):
                                env[pn] = vals[i]
                            else:
                                di = i - (len(params) - len(defaults))
                                if di < 0:
                                    raise RaiseSig('TypeError', ('missing argument',), at)
                                env[pn] = it.eval(defaults[di], {})
                        unknown = set()
                        for st in init.body:
                            try:
                                it.exec_stmt(st, env)
                            except Unrecognised:
                                # a statement outside the subset (typically the formatting of the message): the attributes it stores stay symbolic, the rest is kept
                                for n in ast.walk(st):
                                    if isinstance(n, ast.Attribute) and isinstance(n.ctx, ast.Store):
                                        unknown.add(n.attr)
                                    elif isinstance(n, ast.Call) and isinstance(n.func, ast.Name) and n.func.id == 'setattr':
                                        unknown.add(None)
                        out = None if None in unknown else {k: v for k, v in obj.attrs.items() if k not in unknown}
                    except (Unrecognised, RaiseSig, ReturnSig):
                        out = None
                    finally:
                        it.current_self = prev
                break
        cache[key] = (args, out)
        return out

    @staticmethod
    def class_kind(node):
        """'namedtuple' | 'dataclass' | 'frozen-dataclass' | 'plain'"""
        if any(norm(b) in ('NamedTuple', 'typing.NamedTuple') for b in node.bases):
            return 'namedtuple'
        for d in node.decorator_list:
            t = norm(d.func if isinstance(d, ast.Call) else d)
            if t in ('dataclass', 'dataclasses.dataclass'):
                frozen = isinstance(d, ast.Call) and any(k.arg == 'frozen' and isinstance(k.value, ast.Constant) and k.value.value is True for k in d.keywords)
                return 'frozen-dataclass' if frozen else 'dataclass'
        return 'plain'

    def instantiate(self, cname, args, kwargs, at):
        """an instance of a plain repository class: a heap object whose __init__ is evaluated; None for classes that are modelled otherwise (exceptions, host subclasses)"""
        if cname in DYN_NAMEDTUPLES:
            names = DYN_NAMEDTUPLES[cname]
            if len(args) > len(names) or any(k not in names for k in (kwargs or {})):
                raise RaiseSig('TypeError', (f'{cname}() got unexpected arguments',), at)
            obj = AObj(cname)
            for i, f in enumerate(names):
                if i < len(args):
                    obj.attrs[f] = args[i]
                elif kwargs and f in kwargs:
                    obj.attrs[f] = kwargs[f]
                else:
                    raise RaiseSig('TypeError', (f'{cname}() missing argument {f}',), at)
            obj.fields, obj.frozen, obj.is_tuple = list(names), True, True
            return obj
        home = self.class_home(cname)
        if home is None:
            return None
        m, node = home
        obj = ADictObj(cname) if any(norm(b) == 'dict' for b in node.bases) else AObj(cname)
        kind = self.class_kind(node)
        if node.decorator_list and kind == 'plain':
            raise Unrecognised(self.rule, f'class {cname} has a decorator that is not modelled', m.rel)
        if kind != 'plain':
            # synthesised constructor: the annotated class-level names, in order, with their defaults
            it = self if m is self.mod else self.sub_interp(m)
            fields = [(s.target.id, s.value) for s in node.body if isinstance(s, ast.AnnAssign) and isinstance(s.target, ast.Name)]
            names = [f for f, _d in fields]
            if len(args) > len(names) or any(k not in names for k in (kwargs or {})):
                raise RaiseSig('TypeError', (f'{cname}() got unexpected arguments',), at)
            for i, (f, default) in enumerate(fields):
                if i < len(args):
                    obj.attrs[f] = args[i]
                elif kwargs and f in kwargs:
                    obj.attrs[f] = kwargs[f]
                elif default is not None:
                    if isinstance(default, ast.Call) and norm(default.func) in ('field', 'dataclasses.field'):
                        fac = next((k.value for k in default.keywords if k.arg == 'default_factory'), None)
                        dv = next((k.value for k in default.keywords if k.arg == 'default'), None)
                        if fac is not None:
                            obj.attrs[f] = it.apply(it.eval(fac, {}), [], at)
                        elif dv is not None:
                            obj.attrs[f] = it.eval(dv, {})
                        else:
                            raise RaiseSig('TypeError', (f'{cname}() missing argument {f}',), at)
                    else:
                        obj.attrs[f] = it.eval(default, {})
                else:
                    raise RaiseSig('TypeError', (f'{cname}() missing argument {f}',), at)
            obj.fields = names
            obj.frozen = kind in ('namedtuple', 'frozen-dataclass')
            obj.is_tuple = kind == 'namedtuple'
            post = m.funcs.get(f'{cname}.__post_init__')
            if post is not None and kind != 'namedtuple':
                frozen, obj.frozen = obj.frozen, False
                it.call_function(post, [obj], at)
                obj.frozen = frozen
            return obj
        init = m.funcs.get(f'{cname}.__init__')
        if init is not None:
            it = self if m is self.mod else self.sub_interp(m)
            prev = getattr(it, 'current_self', None)
            it.current_self = obj
            try:
                it.call_function(init, [obj] + list(args), at, kwargs or None)
            finally:
                it.current_self = prev
        elif args or kwargs:
            raise RaiseSig('TypeError', (f'{cname}() takes no arguments',), at)
        return obj

    def call_object_method(self, obj, m, args, at, kwargs=None):
        home = self.class_home(obj.cls)
        if home is None:
            self.bad(at, f'method {m} of an instance of {obj.cls}')
        mod, node = home
        f = mod.funcs.get(f'{obj.cls}.{m}')
        if f is None:
            raise RaiseSig('AttributeError', (m,), at)
        it = self if mod is self.mod else self.sub_interp(mod)
        return it.call_function(f, [obj] + list(args), at, kwargs)

    def sub_interp(self, other):
        """interpreter for another repository module sharing oracles, hooks and scenario state with this one"""
        cache = self.__dict__.setdefault('_subs', {})
        if not cache:
            cache[self.mod.name] = self
        if other.name not in cache:
            sub = object.__new__(type(self))
            sub.__dict__ = dict(self.__dict__)
            sub.mod = other
            sub.globals = {}
            for name in other.assigns:
                v = other.assigns[name][0]
                if isinstance(v, ast.Call) and norm(v.func) == 're.compile':
                    sub.globals[name] = ARegex(name)
            try:
                for name in other.regexes():
                    sub.globals.setdefault(name, ARegex(name))
            except Exception:
                pass
            for name, f in other.funcs.items():
                if '.' not in name:
                    sub.globals[name] = ModuleFunc(f, other)
            for name in other.classes:
                sub.globals[name] = ('class', name)
            sub._lazy = {}
            sub._subs = cache
            cache[other.name] = sub
        sub = cache[other.name]
        if sub is not self:
            # scenario state that the harness rebinds between runs (outcome, behaviour tables, local zone, file tables ...) is kept current in every module view
            sd = sub.__dict__
            for k, v in self.__dict__.items():
                if k[0] != '_' and k not in ('mod', 'globals', 'depth') and sd.get(k, sd) is not v:
                    sd[k] = v
        sub.depth = self.depth
        return sub

    def class_names(self, node, value=None):
        """names of the classes an isinstance() second argument denotes: from the AST when it is written inline, otherwise from its evaluated value"""
        elts = [] if node is None else (node.elts if isinstance(node, ast.Tuple) else [node])
        if elts and all(isinstance(x, (ast.Name, ast.Attribute)) for x in elts) and not any(isinstance(x, ast.Name) and x.id not in
                                                                                      ('str', 'int', 'float', 'bool', 'list', 'dict', 'tuple', 'complex', 'object', 'REGEX_TYPE') for x in elts):
            return [norm(x) for x in elts]

        def name_of(v):
            if isinstance(v, tuple) and v and v[0] == 'builtin':
                return [v[1]]
            if isinstance(v, tuple) and v and v[0] == 'hostattr':
                return [v[1]]
            if isinstance(v, tuple) and v and v[0] == 'typeof':
                return [v[1]]
            if isinstance(v, tuple) and len(v) == 2 and v[0] == 'class' and isinstance(v[1], str):
                return [v[1]]
            if isinstance(v, tuple):
                out = []
                for x in v:
                    out += name_of(x)
                return out
            raise Unrecognised(self.rule, f'isinstance class value {v!r}', self.mod.rel)
        if value is None:
            return [norm(x) for x in elts]
        return name_of(value)

    def call_value_hook(self, fn, args, e):
        if isinstance(fn, tuple) and fn and fn[0] == 'hostattr':
            return self.host_function(fn[1], args, e)
        if isinstance(fn, tuple) and fn and fn[0] == 'extern' and fn[1] in ('functools', 'itertools', 'operator', 're', 'math', 'statistics', 'pathlib', 'os.path', 'copy', 'urllib.parse'):
            return self.host_function(f'{fn[1]}.{fn[2]}', args, e)
        if isinstance(fn, tuple) and fn and fn[0] == 'itemgetter':
            return self.eval_subscript_value(args[0], fn[1], e)
        return NotImplemented

    def eval_subscript_value(self, base, key, e):
        if isinstance(base, ADict):
            if key not in base.d:
                raise RaiseSig('KeyError', (key,), e)
            return base.d[key]
        if isinstance(base, AList) and isinstance(key, int):
            try:
                return base.l[key]
            except IndexError:
                raise RaiseSig('IndexError', (key,), e)
        if isinstance(base, (tuple, list, str)) and isinstance(key, int):
            try:
                return base[key]
            except IndexError:
                raise RaiseSig('IndexError', (key,), e)
        if isinstance(base, dict):
            if key not in base:
                raise RaiseSig('KeyError', (key,), e)
            return base[key]
        self.bad(e, f'getitem on {type(base).__name__}')

    OPERATOR_CMP = {'operator.lt': ast.Lt, 'operator.le': ast.LtE, 'operator.gt': ast.Gt, 'operator.ge': ast.GtE, 'operator.eq': ast.Eq, 'operator.ne': ast.NotEq,
                    'operator.is_': ast.Is, 'operator.is_not': ast.IsNot, 'operator.contains': None}
    OPERATOR_BIN = {'operator.add': ast.Add, 'operator.sub': ast.Sub, 'operator.mul': ast.Mult, 'operator.truediv': ast.Div, 'operator.mod': ast.Mod, 'operator.pow': ast.Pow,
                    'operator.floordiv': ast.FloorDiv}

    def host_function(self, name, args, e):
        """standard-library functions with exact models: itertools.count, the operator module"""
        if name == 'collections.namedtuple' and len(args) >= 2 and isinstance(args[0], str):
            fields = args[1].replace(',', ' ').split() if isinstance(args[1], str) else list(self.iterate(args[1], e))
            kw = getattr(self, '_kwargs', None) or {}
            if all(isinstance(f, str) for f in fields) and not kw:
                DYN_NAMEDTUPLES[args[0]] = list(fields)
                return ('class', args[0])
        if name == 're.compile':
            if args and isinstance(args[0], str) and all(isinstance(a, int) for a in args[1:]):
                return ARegex('<anonymous>', args[0], args[1] if len(args) > 1 else 0)
            return ARegex('<anonymous>')
        if name in ('re.match', 're.search', 're.fullmatch', 're.sub', 're.split', 're.findall') and len(args) >= 2 and isinstance(args[0], str):
            return self.call_method(ARegex('<anonymous>', args[0], 0), name[3:], args[1:], e)
        if name in ('re.match', 're.search', 're.fullmatch', 're.sub', 're.split', 're.findall') and len(args) >= 2 and isinstance(args[0], ARegex):
            return self.call_method(args[0], name[3:], args[1:], e)
        if name in ('os.path.join', 'os.path.dirname', 'os.path.basename', 'os.path.normpath', 'os.path.isabs', 'os.path.splitext', 'os.path.split') and args and \
                all(isinstance(a, str) for a in args):
            import posixpath as _pp
            r = getattr(_pp, name.rsplit('.', 1)[1])(*args)
            return tuple(r) if isinstance(r, tuple) else r
        if name in ('pathlib.Path', 'pathlib.PurePosixPath', 'pathlib.PurePath') and len(args) == 1 and isinstance(args[0], str):
            import pathlib as _pl
            return Sym('hostpath', str(_pl.PurePosixPath(args[0])))
        if name == 'importlib.resources.files' and len(args) == 1 and isinstance(args[0], str):
            return Sym('pkgdir', args[0])
        if name == 'urllib.parse.urljoin' and len(args) == 2 and all(isinstance(a, str) for a in args):
            import urllib.parse as _up
            return _up.urljoin(*args)
        if name in ('urllib.parse.quote', 'urllib.parse.quote_plus', 'urllib.parse.unquote', 'urllib.parse.unquote_plus') and args and all(isinstance(a, str) for a in args):
            import urllib.parse as _up
            kw = {k: v for k, v in (getattr(self, '_kwargs', None) or {}).items() if isinstance(v, str)}
            self._kwargs = {}
            return getattr(_up, name.rsplit('.', 1)[1])(*args, **kw)
        if name in ('copy.copy', 'copy.deepcopy') and len(args) == 1:
            def cp(v, deep, memo):
                if isinstance(v, AList):
                    if id(v) in memo:
                        return memo[id(v)]
                    out = AList()
                    memo[id(v)] = out
                    out.l = [cp(x, deep, memo) if deep else x for x in v.l]
                    return out
                if isinstance(v, ADict):
                    if id(v) in memo:
                        return memo[id(v)]
                    out = ADict()
                    memo[id(v)] = out
                    out.d = {k: (cp(x, deep, memo) if deep else x) for k, x in v.d.items()}
                    return out
                if isinstance(v, (Sym, ALine, AMatch)):
                    return v if not deep else Sym('deepcopy', v)
                return v
            return cp(args[0], name.endswith('deepcopy'), {})
        if name == 're.escape' and len(args) == 1 and isinstance(args[0], str):
            import re as _re
            return _re.escape(args[0])
        if name.startswith('math.') and args and all(isinstance(a, (int, float)) and not isinstance(a, bool) for a in args):
            import math
            fn = getattr(math, name[5:], None)
            if callable(fn):
                try:
                    return fn(*args)
                except (ValueError, OverflowError, TypeError, ZeroDivisionError) as exc:
                    raise RaiseSig(type(exc).__name__, (str(exc),), e)
        if name == 'collections.defaultdict' and len(args) <= 1:
            d = ADict({})
            d.default_factory = args[0] if args else None
            return d
        if name == 'collections.OrderedDict' and not args:
            return ADict({})
        if name == 'collections.deque':
            kw = dict(getattr(self, '_kwargs', None) or {})
            self._kwargs = {}
            items = self.iterate(args[0], e) if args else []
            maxlen = args[1] if len(args) > 1 else kw.get('maxlen')
            if maxlen is not None:
                if not isinstance(maxlen, int) or isinstance(maxlen, bool):
                    self.bad(e, 'deque maxlen')
                items = items[len(items) - maxlen:] if maxlen else []
            d = AList(items)
            d.maxlen = maxlen
            return d
        if name == 'functools.partial' and args:
            kw = getattr(self, '_kwargs', {}) or {}
            self._kwargs = {}
            if kw:
                return ('partial', args[0], tuple(args[1:]), tuple(kw.items()))
            return ('partial', args[0], tuple(args[1:]))
        if name == 'functools.reduce' and len(args) in (2, 3):
            items = self.iterate(args[1], e)
            if len(args) == 3:
                acc = args[2]
            elif items:
                acc, items = items[0], items[1:]
            else:
                raise RaiseSig('TypeError', ('reduce() of empty iterable with no initial value',), e)
            for x in items:
                acc = self.apply(args[0], [acc, x], e)
            return acc
        if name == 'functools.cmp_to_key' and len(args) == 1:
            return ('cmpkey', args[0])
        if name == 'operator.getitem' and len(args) == 2:
            return self.eval_subscript_value(args[0], args[1], e)
        if name == 'operator.itemgetter' and len(args) == 1:
            return ('itemgetter', args[0])
        if name == 'itertools.repeat' and len(args) in (1, 2):
            import itertools
            v = args[0]
            if len(args) == 2 and isinstance(args[1], int):
                return ALazy(lambda: itertools.repeat(v, args[1]))
            if len(args) == 1:
                return ALazy(lambda: itertools.repeat(v))
        if name == 'itertools.chain':
            import itertools
            its = list(args)
            return ALazy(lambda: itertools.chain.from_iterable(self.py_iter(x, e) for x in its))
        if name == 'itertools.chain.from_iterable' and len(args) == 1:
            import itertools
            outer = args[0]
            return ALazy(lambda: itertools.chain.from_iterable(self.py_iter(x, e) for x in self.py_iter(outer, e)))
        if name == 'itertools.islice' and len(args) in (2, 3, 4) and all(a is None or (isinstance(a, int) and not isinstance(a, bool)) for a in args[1:]):
            import itertools
            src, rest = args[0], args[1:]
            return ALazy(lambda: itertools.islice(self.py_iter(src, e), *rest))
        if name == 'itertools.zip_longest':
            import itertools
            kw = getattr(self, '_kwargs', {}) or {}
            fill = kw.get('fillvalue')
            its = list(args)
            return ALazy(lambda: itertools.zip_longest(*[self.py_iter(x, e) for x in its], fillvalue=fill))
        if name in ('itertools.filterfalse', 'itertools.takewhile', 'itertools.dropwhile') and len(args) == 2:
            import itertools
            fn, src = args
            pred = (lambda x: self.truth(x, e)) if fn is None else (lambda x: self.truth(self.apply(fn, [x], e), e))
            return ALazy(lambda: getattr(itertools, name.split('.')[1])(pred, self.py_iter(src, e)))
        if name == 'itertools.starmap' and len(args) == 2:
            fn, src = args
            return ALazy(lambda: (self.apply(fn, list(self.iterate(t, e)), e) for t in self.py_iter(src, e)))
        if name == 'itertools.count':
            if all(isinstance(a, int) and not isinstance(a, bool) for a in args) and len(args) <= 2:
                return ACount(*args)
        if name in self.OPERATOR_CMP and len(args) == 2:
            if name == 'operator.contains':
                return self.compare(ast.In(), args[1], args[0], e)
            return self.compare(self.OPERATOR_CMP[name](), args[0], args[1], e)
        if name in self.OPERATOR_BIN and len(args) == 2:
            return self.binop(self.OPERATOR_BIN[name](), args[0], args[1], e)
        if name == 'operator.not_' and len(args) == 1:
            return not self.truth(args[0], e)
        if name == 'operator.neg' and len(args) == 1 and isinstance(args[0], (int, float)):
            return -args[0]
        return NotImplemented

    def apply(self, fn, args, at, kwargs=None):
        """call an abstract function value: ModuleFunc, ('partial', fn, pre-args[, keyword items]), ('closure', Lambda, env)"""
        if isinstance(fn, ModuleFunc):
            if fn.mod is not None and fn.mod is not self.mod and getattr(self, 'repo', None) is not None:
                return self.sub_interp(fn.mod).call_function(fn.node, list(args), at, kwargs or None)
            return self.call_function(fn.node, list(args), at, kwargs or None)
        if isinstance(fn, tuple) and fn and fn[0] == 'partial':
            kw = dict(fn[3]) if len(fn) > 3 else {}
            kw.update(kwargs or {})
            return self.apply(fn[1], list(fn[2]) + list(args), at, kw or None)
        if kwargs:
            if isinstance(fn, tuple) and fn and fn[0] == 'class':
                obj = self.instantiate(fn[1], list(args), kwargs, at)
                return obj if obj is not None else Sym('instance', fn[1], tuple(args), tuple(sorted(kwargs.items(), key=lambda kv: kv[0])))
            if isinstance(fn, tuple) and fn and fn[0] == 'hostattr':
                self._kwargs = dict(kwargs)
                try:
                    r = self.call_value_hook(fn, list(args), at)
                finally:
                    self._kwargs = {}
                if r is not NotImplemented:
                    return r
            self.bad(at, 'keyword arguments for a function value outside the subset')
        if isinstance(fn, tuple) and fn and fn[0] == 'bound':
            self._kwargs = {}
            return self.call_method(fn[1], fn[2], list(args), at)
        if isinstance(fn, tuple) and fn and fn[0] == 'builtin':
            return self.call_builtin(fn[1], list(args), at)
        if isinstance(fn, tuple) and fn and fn[0] == 'hostattr':
            r = self.host_function(fn[1], list(args), at)
            if r is not NotImplemented:
                return r
        if isinstance(fn, tuple) and fn and fn[0] == 'extern' and fn[2] in self.oracles:
            return self.oracles[fn[2]](list(args), at)
        r = self.call_value_hook(fn, list(args), at)
        if r is not NotImplemented:
            return r
        if isinstance(fn, tuple) and fn and fn[0] == 'closure-def':
            node, cenv = fn[1], fn[2]
            params = [a.arg for a in node.args.args]
            if len(params) != len(args) or node.args.vararg or node.args.kwarg or node.args.defaults:
                self.bad(at, 'nested function signature outside the subset')
            env = dict(cenv)           # reads of enclosing names; rebinding enclosing names is outside the subset
            env.update(zip(params, args))
            if _is_generator(node):
                return AGen(self, node, env)
            self.depth += 1
            try:
                self.exec_block(node.body, env)
            except ReturnSig as r:
                return r.value
            finally:
                self.depth -= 1
            return None
        if isinstance(fn, tuple) and fn and fn[0] == 'closure':
            lam, cenv = fn[1], fn[2]
            params = [a.arg for a in lam.args.args]
            if len(params) != len(args) or lam.args.vararg or lam.args.kwarg or lam.args.defaults:
                self.bad(at, 'lambda signature outside the subset')
            env = dict(cenv)
            env.update(zip(params, args))
            return self.eval(lam.body, env)
        if isinstance(fn, tuple) and fn and fn[0] == 'extern' and getattr(self, 'repo', None) is not None:
            try:
                other = self.repo.resolve_module(fn[1]) if fn[1].startswith('.') else self.repo.module(fn[1])
            except Unrecognised:
                other = None
            if other is not None and fn[2] in other.funcs:
                return self.sub_interp(other).call_function(other.funcs[fn[2]], list(args), at)
            if other is not None and fn[2] in other.imports:
                try:
                    node = other.func(fn[2], self.rule)
                except Unrecognised:
                    node = None
                if node is not None:
                    return self.call_function(node, list(args), at)
        self.bad(at, f'value {fn!r} is not callable')

    def call_method(self, base, m, args, e):
        """method `m` of the abstract value `base` applied to evaluated arguments"""
        r = self.method_hook(base, m, args, e)
        if r is not NotImplemented:
            return r
        if isinstance(base, tuple) and len(base) == 2 and base[0] == 'super' and isinstance(base[1], AObj):
            if m == '__init__':
                base[1].attrs['args'] = tuple(args)
                return None
            self.bad(e, f'super().{m}()')
        if isinstance(base, (int, float)) and not isinstance(base, bool) and m in ('is_integer', 'bit_length', 'as_integer_ratio', 'hex', 'conjugate', '__abs__', '__int__', '__float__') and not args:
            if not hasattr(base, m):
                raise RaiseSig('AttributeError', (m,), e)
            try:
                r = getattr(base, m)()
            except (ValueError, OverflowError) as exc:
                raise RaiseSig(type(exc).__name__, (str(exc),), e)
            return tuple(r) if isinstance(r, tuple) else r
        if isinstance(base, AObj):
            kw = dict(getattr(self, '_kwargs', None) or {})
            self._kwargs = {}
            if getattr(base, 'is_tuple', False) and m in ('_replace', '_asdict'):
                if m == '_asdict':
                    return ADict({f: base.attrs[f] for f in base.fields})
                new = AObj(base.cls)
                new.attrs = dict(base.attrs)
                new.attrs.update(kw)
                new.fields, new.frozen, new.is_tuple = base.fields, True, True
                return new
            return self.call_object_method(base, m, args, e, kw or None)
        if base == ('builtin', 'dict') and m == 'fromkeys' and 1 <= len(args) <= 2:
            out = ADict({})
            for k in self.iterate(args[0], e):
                out.d[k] = args[1] if len(args) > 1 else None
            return out
        if isinstance(base, tuple) and base and base[0] in ('module', 'hostattr'):
            r = self.host_function(f'{base[1]}.{m}', args, e)
            if r is not NotImplemented:
                return r
        if isinstance(base, CMatch):
            try:
                if m == 'group':
                    return base.m.group(*args)
                if m == 'groups':
                    return tuple(base.m.groups(*args))
                if m == 'groupdict':
                    return ADict(base.m.groupdict(*args))
                if m in ('start', 'end'):
                    return getattr(base.m, m)(*args)
                if m == 'span':
                    return tuple(base.m.span(*args))
            except (IndexError, TypeError) as exc:
                raise RaiseSig(type(exc).__name__, (str(exc),), e)
            self.bad(e, f'match method {m}')
        if isinstance(base, ARegex) and m in ('match', 'search', 'fullmatch', 'sub', 'split', 'findall') and args and \
                isinstance(args[1] if m == 'sub' and len(args) > 1 else args[0], str):
            rx = self.host_regex(base, e)
            kw = dict(getattr(self, '_kwargs', None) or {})
            self._kwargs = {}
            if kw:
                if m == 'sub' and set(kw) <= {'count'} and isinstance(kw.get('count', 0), int):
                    args = list(args[:2]) + [kw.get('count', 0)]
                elif m == 'split' and set(kw) <= {'maxsplit'} and isinstance(kw.get('maxsplit', 0), int):
                    args = list(args[:1]) + [kw.get('maxsplit', 0)]
                else:
                    self.bad(e, f'keyword arguments of regex method {m}')
            if m == 'sub' and not isinstance(args[0], str):
                fn = args[0]

                def repl(mo):
                    r = self.apply(fn, [CMatch(mo, base)], e)
                    if not isinstance(r, str):
                        raise Unrecognised(self.rule, f'replacement function returns the non-text value {r!r}', self.mod.rel)
                    return r
                return rx.sub(repl, args[1], *[a for a in args[2:] if isinstance(a, int)])
            if m in ('match', 'search', 'fullmatch'):
                if not all(isinstance(a, int) and not isinstance(a, bool) for a in args[1:]):
                    raise RaiseSig('TypeError', ('pos/endpos must be integers',), e)
                r = getattr(rx, m)(*args)
                return None if r is None else CMatch(r, base)
            if m == 'sub':
                import re as _re
                try:
                    return rx.sub(args[0], args[1], *[a for a in args[2:] if isinstance(a, int)])
                except (_re.error, IndexError) as exc:
                    raise RaiseSig('re.error', (str(exc),), e)
            if m == 'split':
                return AList(rx.split(args[0], *[a for a in args[1:] if isinstance(a, int)]))
            return AList([x if isinstance(x, str) else tuple(x) for x in rx.findall(args[0])])
        if isinstance(base, ARegex):
            if m == 'match':
                line = args[0]
                if base.name == '<anonymous>':
                    raise Unrecognised(self.rule, f'match() of a regex that is not a module-level constant: {norm(e)[:70]}', self.mod.rel)
                if isinstance(line, ALine):
                    return AMatch(base.name, line) if (line.regex == base.name or base.name in line.also) else None
                return Sym('match', base.name, line)
            if m == 'search' and args and isinstance(args[0], ALine):
                # only the continuation-marker regex (backslash, blanks, end) may be searched in an abstract line: the line says whether it ends in one
                try:
                    pat = self.mod.regexes()[base.name].pattern
                except Exception:
                    pat = ''
                if pat.startswith('\\\\') and pat.endswith('$'):
                    return AMatch(base.name, args[0]) if args[0].cont else None
                raise Unrecognised(self.rule, f'search() of {base.name} in an abstract line', self.mod.rel)
            if m == 'sub':
                subj = args[1]
                if isinstance(subj, ALine):
                    return APart(subj) if subj.cont else subj
                return Sym('unescaped', subj)
            if m == 'split':
                if isinstance(args[0], ALine):
                    return AList([args[0]])         # the line-split regex applied to one abstract physical line
                if isinstance(args[0], Sym) and args[0].kind == 'group':
                    return Sym('arglist', args[0])
                return Sym('split', base.name, args[0])
            self.bad(e, f'regex method {m}')
        if isinstance(base, AMatch):
            if m == 'group':
                return self.group(base, args[0] if args else 0, e)
            if m in ('start', 'end', 'span'):
                return Sym(m, base.regex, args[0] if args else 0, base.line.lid)
            self.bad(e, f'match method {m}')
        if isinstance(base, dict) and m == 'get':
            return base.get(args[0], args[1] if len(args) > 1 else None)
        if isinstance(base, (ASet, frozenset)):
            cur = base.s if isinstance(base, ASet) else set(base)
            def as_set(x):
                items = self.iterate(x, e)
                if not all(isinstance(i, (str, int, float, tuple)) or i is None for i in items):
                    self.bad(e, 'set operation on non-constant items')
                return set(items)
            if isinstance(base, ASet) and m in ('add', 'discard', 'remove') and len(args) == 1:
                if isinstance(args[0], (Sym, ADict, AList, ALine)):
                    self.bad(e, f'set.{m}() of an abstract value')
                if m == 'remove' and args[0] not in cur:
                    raise RaiseSig('KeyError', (args[0],), e)
                (cur.add if m == 'add' else cur.discard)(args[0])
                return None
            if isinstance(base, ASet) and m in ('update', 'difference_update', 'intersection_update'):
                for a in args:
                    other = as_set(a)
                    if m == 'update':
                        cur |= other
                    elif m == 'difference_update':
                        cur -= other
                    else:
                        cur &= other
                return None
            if isinstance(base, ASet) and m == 'clear':
                cur.clear()
                return None
            if m in ('union', 'difference', 'intersection', 'symmetric_difference'):
                r = set(cur)
                for a in args:
                    other = as_set(a)
                    r = r | other if m == 'union' else r - other if m == 'difference' else r & other if m == 'intersection' else r ^ other
                return ASet(r)
            if m in ('issubset', 'issuperset', 'isdisjoint') and len(args) == 1:
                return getattr(cur, m)(as_set(args[0]))
            if m == 'copy':
                return ASet(cur)
        if isinstance(base, ADict):
            if m == 'get':
                return base.d.get(args[0], args[1] if len(args) > 1 else None)
            if m == 'keys':
                return AKeys(base.d.keys())
            if m == 'items':
                return list(base.d.items())
            if m == 'values':
                return list(base.d.values())
            if m == 'pop':
                if args[0] in base.d:
                    return base.d.pop(args[0])
                if len(args) > 1:
                    return args[1]
                raise RaiseSig('KeyError', (args[0],), e)
            if m == 'clear' and not args:
                base.d.clear()
                return None
            if m == 'popitem' and not args:
                if not base.d:
                    raise RaiseSig('KeyError', ('popitem(): dictionary is empty',), e)
                k = next(reversed(base.d))
                return (k, base.d.pop(k))
            if m == 'setdefault':
                return base.d.setdefault(args[0], args[1] if len(args) > 1 else None)
            if m == 'update':
                if isinstance(args[0], ADict):
                    base.d.update(args[0].d)
                    return None
                if isinstance(args[0], (list, tuple, AList, ALazy, AGen, AIter)):
                    for pair in self.iterate(args[0], e):
                        k, v = self.iterate(pair, e)
                        base.d[k] = v
                    return None
            if m == 'copy':
                return ADict(base.d)
            self.bad(e, f'dict method {m}')
        if isinstance(base, AList):
            if m == 'append':
                base.l.append(args[0])
                self.trace.append(('append', id(base)))
                return None
            if m == 'extend':
                base.l.extend(self.iterate(args[0], e))
                return None
            if m == 'pop':
                if not base.l:
                    raise RaiseSig('IndexError', ('pop from empty list',), e)
                self.trace.append(('pop', id(base)))
                return base.l.pop(*args)
            if m == 'clear':
                base.l.clear()
                return None
            if m == 'reverse' and not args:
                base.l.reverse()
                return None
            if m == 'insert':
                base.l.insert(args[0], args[1])
                return None
            if m in ('index', 'count', 'remove') and args:
                # host equality (==) of the searched value with each element
                lo = args[1] if len(args) > 1 else 0
                hi = args[2] if len(args) > 2 else len(base.l)
                if m != 'index' and len(args) > 1:
                    self.bad(e, f'list.{m} with extra arguments')
                if any(isinstance(x, float) for x in (lo, hi)):
                    raise RaiseSig('TypeError', ('slice indices must be integers',), e)
                if not all(isinstance(x, int) for x in (lo, hi)):
                    self.bad(e, 'list.index bounds')
                hits = [i for i in range(*slice(lo, hi).indices(len(base.l))) if self.compare(ast.Eq(), base.l[i], args[0], e)]
                if m == 'count':
                    return len(hits)
                if not hits:
                    raise RaiseSig('ValueError', (f'{args[0]!r} is not in list',), e)
                if m == 'remove':
                    del base.l[hits[0]]
                    return None
                return hits[0]
            if m == 'copy':
                return AList(base.l)
            if m == 'sort' and not args:
                kw = getattr(self, '_kwargs', {}) or {}
                self._kwargs = {}
                key, reverse = kw.get('key'), kw.get('reverse', False)
                if set(kw) - {'key', 'reverse'} or not isinstance(reverse, bool):
                    self.bad(e, 'list.sort options outside the subset')
                import functools
                if isinstance(key, tuple) and key and key[0] == 'cmpkey':
                    def cmp(x, y):
                        r = self.apply(key[1], [x, y], e)
                        if isinstance(r, bool) or not isinstance(r, (int, float)):
                            raise RaiseSig('TypeError', (f'comparison function returned {r!r}',), e)
                        return (r > 0) - (r < 0)
                    base.l.sort(key=functools.cmp_to_key(cmp), reverse=reverse)
                    return None
                if key is None:
                    def hcmp(x, y):
                        return -1 if self.compare(ast.Lt(), x, y, e) else (1 if self.compare(ast.Lt(), y, x, e) else 0)
                    base.l.sort(key=functools.cmp_to_key(hcmp), reverse=reverse)
                    return None
                self.bad(e, 'list.sort with a key function outside the subset')
            self.bad(e, f'list method {m}')
        if isinstance(base, APart):
            if m in ('strip', 'rstrip', 'lstrip'):
                return '' if base.line.cont == 'blank' else base
            self.bad(e, f'method .{m}() on a continuation part')
        if isinstance(base, (ALine, Sym)):
            if m in ('strip', 'rstrip', 'lstrip'):
                return base
            if m in ('startswith', 'endswith'):
                raise Unrecognised(self.rule, f'text predicate .{m}() on an abstract line', self.mod.rel)
            if isinstance(base, Sym) and base.kind == 'instance':
                raise Unrecognised(self.rule, f'method {m}() of an instance of the class {base.args[0]}, which is not modelled', self.mod.rel)
            kw = getattr(self, '_kwargs', None) or {}
            self._kwargs = {}
            if kw:
                return Sym('method', base, m, *args, tuple(sorted(kw.items(), key=lambda kv: kv[0])))
            return Sym('method', base, m, *args) if args else Sym('method', base, m)
        if type(base) is str and m == 'format':
            kw = dict(getattr(self, '_kwargs', None) or {})
            self._kwargs = {}
            plain = lambda v: v is None or isinstance(v, (bool, int, float, str))
            if all(plain(a) for a in args) and all(plain(v) for v in kw.values()):
                try:
                    return base.format(*args, **kw)
                except (IndexError, KeyError, ValueError) as exc:
                    raise RaiseSig(type(exc).__name__, (str(exc),), e)
            return Sym('format', base, tuple(args), tuple(sorted(kw.items(), key=lambda kv: kv[0])))
        if isinstance(base, str):
            if m == 'join':
                items = self.iterate(args[0], e)
                if any(isinstance(x, (APart, ALine)) for x in items) or (items and all(x == '' for x in items) and False):
                    last = items[-1]
                    lids = tuple(x.line.lid if isinstance(x, APart) else (x.lid if isinstance(x, ALine) else None) for x in items)
                    if isinstance(last, ALine):
                        return ALine(last.lid, last.regex, last.groups, last.also, None, lids)
                    if all(isinstance(x, APart) and x.line.cont == 'blank' for x in items):
                        return base.join([''] * len(items))       # parts that consist of the continuation backslash only
                    return Sym('joined', lids)
                if len(items) == 1:
                    return items[0]
                if all(isinstance(x, str) for x in items):
                    return base.join(items)
                return Sym('join', tuple(items))
            if m in ('strip', 'rstrip', 'lstrip', 'lower', 'upper') and not args:
                return getattr(base, m)()
            if m in ('find', 'rfind', 'startswith', 'endswith', 'replace', 'count', 'index', 'rindex', 'strip', 'lstrip', 'rstrip', 'removeprefix', 'removesuffix') \
                    and all(isinstance(a, (str, int)) and not isinstance(a, bool) for a in args):
                try:
                    return getattr(base, m)(*args)
                except ValueError as exc:
                    raise RaiseSig('ValueError', (str(exc),), e)
            if m in ('find', 'rfind') and any(isinstance(a, float) for a in args):
                raise RaiseSig('TypeError', ('slice indices must be integers',), e)
            if m == 'split' and all(isinstance(a, str) for a in args):
                return AList(base.split(*args))
            if m in ('splitlines', 'split', 'rsplit') and all(a is None or isinstance(a, (str, int)) for a in args):
                return AList(getattr(base, m)(*args))
            if m in ('partition', 'rpartition') and all(isinstance(a, str) for a in args):
                return tuple(getattr(base, m)(*args))
            if m in ('zfill', 'ljust', 'rjust', 'center', 'title', 'capitalize', 'swapcase', 'casefold', 'isdigit', 'isalpha', 'isalnum', 'isspace', 'isupper', 'islower',
                     'isnumeric', 'isdecimal', 'isidentifier', 'expandtabs') and all(isinstance(a, (str, int)) and not isinstance(a, bool) for a in args):
                try:
                    return getattr(base, m)(*args)
                except (TypeError, ValueError) as exc:
                    raise RaiseSig(type(exc).__name__, (str(exc),), e)
        if isinstance(base, tuple) and len(base) == 2 and base[0] == 'class' and m == '_make' and len(args) == 1:
            home = self.class_home(base[1])
            if base[1] in DYN_NAMEDTUPLES or (home is not None and self.class_kind(home[1]) == 'namedtuple'):
                obj = self.instantiate(base[1], list(self.iterate(args[0], e)), None, e)
                if obj is not None:
                    return obj
        self.bad(e, f'method call .{m}() on {type(base).__name__}')

    def host_regex(self, rx, node):
        """the host regex object of a repository regex constant (its pattern and flags are read from the source)"""
        import re as _re
        if rx.pattern is not None:
            return _re.compile(rx.pattern, rx.flags)
        mods = [self.mod]
        repo = getattr(self, 'repo', None)
        if repo is not None:
            for nm in _package_modules(repo):
                try:
                    mods.append(repo.module(nm))
                except Exception:
                    pass
        for mod in mods:
            try:
                table = mod.regexes()
            except Exception:
                continue
            if rx.name in table:
                r = table[rx.name]
                pat = r.pattern[1:] if getattr(r, 'implicit_anchor', False) else r.pattern
                return _re.compile(pat, r.flags)
        raise Unrecognised(self.rule, f'regex {rx.name} is not a regex constant of the repository', self.mod.rel)

    def call_builtin(self, name, args, e):
        if name in ('list', 'dict') and not args:
            return AList() if name == 'list' else ADict()
        r = self.builtin_hook(name, args, e)
        if r is not NotImplemented:
            return r
        if name == 'len':
            v = args[0]
            if isinstance(v, AList):
                return len(v.l)
            if isinstance(v, ADict):
                return len(v.d)
            if isinstance(v, (list, tuple, str, dict, set, frozenset)):
                return len(v)
            if isinstance(v, ASet):
                return len(v.s)
            return Sym('len', v)
        if name == 'iter':
            if isinstance(args[0], (ALazy, ACount, AGen)):
                return args[0]
            return args[0] if isinstance(args[0], AIter) else AIter(self.iterate(args[0], e))
        if name == 'next':
            src = args[0]
            if isinstance(src, AGen):
                ok, item = src.next()
                if ok:
                    return item
                if len(args) > 1:
                    return args[1]
                raise RaiseSig('StopIteration', (), e)
            if isinstance(src, ALazy):
                try:
                    return next(src.iterator())
                except StopIteration:
                    if len(args) > 1:
                        return args[1]
                    raise RaiseSig('StopIteration', (), e)
            if isinstance(src, ACount):
                v = src.value
                src.value += src.step
                return v
            if isinstance(src, list):       # a generator expression evaluated eagerly
                src = AIter(src)
            if not isinstance(src, AIter):
                self.bad(e, 'next() of a non-iterator')
            if src.pos < len(src.items):
                src.pos += 1
                return src.items[src.pos - 1]
            if len(args) > 1:
                return args[1]
            raise RaiseSig('StopIteration', (), e)
        if name == 'reversed':
            return list(reversed(self.iterate(args[0], e)))
        if name == 'zip':
            if any(isinstance(a, (ALazy, ACount)) for a in args):
                its = [self.py_iter(a, e) for a in args]
                if not any(isinstance(a, (AList, ADict, list, tuple, AIter)) for a in args):
                    self.bad(e, 'zip of unbounded iterables only')
                return [tuple(t) for t in zip(*its)]
            seqs = [self.iterate(a, e) for a in args]
            return [tuple(t) for t in zip(*seqs)]
        if name == 'map' and len(args) >= 2:
            fn, srcs = args[0], args[1:]
            return ALazy(lambda: (self.apply(fn, list(t), e) for t in zip(*[self.py_iter(x, e) for x in srcs])))
        if name == 'filter' and len(args) == 2:
            fn, src = args
            return ALazy(lambda: (x for x in self.py_iter(src, e) if (self.truth(x, e) if fn is None else self.truth(self.apply(fn, [x], e), e))))
        if name in ('any', 'all') and len(args) == 1:
            for x in self.py_iter(args[0], e):
                t = self.truth(x, e)
                if name == 'any' and t:
                    return True
                if name == 'all' and not t:
                    return False
            return name == 'all'
        if name == 'range':
            if all(isinstance(a, int) and not isinstance(a, bool) for a in args) and 1 <= len(args) <= 3:
                r = range(*args)
                if len(r) > 10000:
                    self.bad(e, 'range too long')
                return list(r)
            self.bad(e, 'range over symbolic bounds')
        if name in ('min', 'max') and args and all(isinstance(a, (int, float)) and not isinstance(a, bool) for a in args) and len(args) > 1:
            return (min if name == 'min' else max)(*args)
        if name == 'list':
            return AList(self.iterate(args[0], e)) if args else AList()
        if name == 'tuple':
            return tuple(self.iterate(args[0], e))
        if name == 'enumerate':
            return [(i, x) for i, x in enumerate(self.iterate(args[0], e))]
        if name == 'isinstance':
            if isinstance(args[0], Sym) and args[0].kind == 'exc':
                classes = [norm(x) for x in (e.args[1].elts if isinstance(e.args[1], ast.Tuple) else [e.args[1]])]
                return self.exc_matches(args[0].args[0], classes)
            if isinstance(args[0], Sym):
                raise Unrecognised(self.rule, 'isinstance on a symbolic value', self.mod.rel)
            v = args[0]
            classes = self.class_names(e.args[1], args[1] if len(args) > 1 else None)
            table = {'str': isinstance(v, (str, ALine)) or getattr(v, '_is_text', False) is True, 'dict': isinstance(v, ADict), 'list': isinstance(v, AList), 'int': isinstance(v, int),
                     'float': isinstance(v, float), 'bool': isinstance(v, bool), 'complex': isinstance(v, complex), 'tuple': isinstance(v, tuple)}
            concrete = v is None or isinstance(v, (int, float, str, bool, ADict, AList, tuple, complex))
            res = False
            for cls in classes:
                if cls in table:
                    res = res or table[cls]
                elif cls == 'object':
                    res = True
                elif cls in ('functools.partial', 'partial'):
                    res = res or (isinstance(v, tuple) and bool(v) and v[0] == 'partial')
                elif concrete and cls in ('datetime.date', 'datetime.datetime', 'REGEX_TYPE', 're.Pattern', 'uuid.UUID', 'date', 'datetime'):
                    pass
                elif isinstance(v, ARegex) and cls in ('REGEX_TYPE', 're.Pattern', 'datetime.date', 'datetime.datetime', 'date', 'datetime', 'uuid.UUID'):
                    res = res or cls in ('REGEX_TYPE', 're.Pattern')
                elif cls in ('Exception', 'BaseException') or cls.endswith(('Error', 'Exception', 'Warning')):
                    pass            # the value is not an exception object (those are handled above): never an instance of an exception class
                elif cls in DYN_NAMEDTUPLES or self.class_home(cls) is not None:
                    # a plain class of the repository: only its own instances (no subclassing among the helper classes is modelled)
                    res = res or (isinstance(v, AObj) and v.cls == cls)
                else:
                    self.bad(e, f'isinstance class {cls} outside the subset')
            return res
        if name == 'dict':
            out = ADict()
            if args:
                if isinstance(args[0], ADict):
                    out.d.update(args[0].d)
                else:
                    for pair in self.iterate(args[0], e):
                        k, v = self.iterate(pair, e)
                        out.d[k] = v
            return out
        if name == 'sorted' and len(args) == 1:
            kw = dict(getattr(self, '_kwargs', None) or {})
            out = AList(self.iterate(args[0], e))
            key = kw.get('key')
            if key is not None and not (isinstance(key, tuple) and key and key[0] == 'cmpkey'):
                # decorate with the key values, sort those with the host ordering of the interpreter, undecorate (stable)
                self._kwargs = {}
                keyed = [(self.apply(key, [x], e), i, x) for i, x in enumerate(out.l)]
                import functools as _ft

                def kcmp(p, q):
                    return -1 if self.compare(ast.Lt(), p[0], q[0], e) else (1 if self.compare(ast.Lt(), q[0], p[0], e) else 0)
                keyed.sort(key=_ft.cmp_to_key(kcmp), reverse=bool(kw.get('reverse', False)))
                return AList([x for _k, _i, x in keyed])
            self._kwargs = {k: v for k, v in kw.items() if k in ('key', 'reverse')}
            self.call_method(out, 'sort', [], e)
            return out
        if name == 'sum' and args:
            items = self.iterate(args[0], e)
            if all(isinstance(x, (int, float)) and not isinstance(x, bool) for x in items):
                return sum(items)
            self.bad(e, 'sum of non-numbers')
        if name in ('min', 'max') and len(args) == 1:
            items = self.iterate(args[0], e)
            kw = dict(getattr(self, '_kwargs', None) or {})
            if not items and 'default' in kw:
                return kw['default']
            if not items:
                raise RaiseSig('ValueError', (f'{name}() arg is an empty sequence',), e)
            if 'key' not in kw and (all(isinstance(x, (int, float)) and not isinstance(x, bool) for x in items) or all(isinstance(x, str) for x in items)):
                return (min if name == 'min' else max)(items)
            self.bad(e, f'{name} of non-numbers')
        if name in ('set', 'frozenset'):
            items = self.iterate(args[0], e) if args else []
            if not all(isinstance(x, (str, int, float, tuple)) or x is None for x in items):
                self.bad(e, f'{name}() of non-constant items')
            return ASet(items) if name == 'set' else frozenset(items)
        if name == 'str' and args and isinstance(args[0], Sym) and args[0].kind == 'hostpath':
            return args[0].args[0]
        if name == 'str':
            return str(args[0]) if isinstance(args[0], (int, str, float)) or args[0] is None else Sym('str', args[0])
        if name == 'bool':
            return self.truth(args[0], e)
        if name in ('int', 'float'):
            if isinstance(args[0], (int, float)) or (isinstance(args[0], str) and all(isinstance(a, int) and not isinstance(a, bool) for a in args[1:])):
                try:
                    return int(*args) if name == 'int' else float(*args)
                except (ValueError, OverflowError, TypeError) as exc:
                    raise RaiseSig(type(exc).__name__, (str(exc),), e)
            return Sym(name, args[0])
        if name == 'ord' and isinstance(args[0], str) and len(args[0]) == 1:
            return ord(args[0])
        if name == 'chr' and isinstance(args[0], int):
            return chr(args[0])
        if name == 'abs' and isinstance(args[0], (int, float)):
            return abs(args[0])
        if name == 'id' and len(args) == 1:
            if isinstance(args[0], (AList, ADict, ASet, AObj)) or getattr(args[0], '_host_object', False):
                return id(args[0])          # identity of a heap object (stable while the abstract heap holds it)
            raise Unrecognised(self.rule, f'id() of the non-heap value {args[0]!r} (interning is not modelled)', self.mod.rel)
        if name == 'type' and len(args) == 1:
            v = args[0]
            if isinstance(v, ARegex) or (isinstance(v, Sym) and v.kind in ('hostcall',) and v.args and v.args[0] == 're.compile'):
                return ('typeof', 're.Pattern')
            if v is None:
                return ('typeof', 'type(None)')
            for cls, nm in ((bool, 'bool'), (int, 'int'), (float, 'float'), (str, 'str'), (AList, 'list'), (ADict, 'dict')):
                if isinstance(v, cls):
                    return ('builtin', nm)
            if isinstance(v, ModuleFunc) or (isinstance(v, tuple) and v and v[0] in ('partial', 'extern', 'closure', 'bound')):
                return ('typeof', 'function' if not (isinstance(v, tuple) and v[0] == 'partial') else 'functools.partial')
            if isinstance(v, tuple) and not (v and isinstance(v[0], str) and v[0] in ('class', 'builtin', 'typeof', 'hostattr', 'module', 'super', 'itemgetter')):
                return ('builtin', 'tuple')
            if getattr(v, '_host_object', False):
                return ('typeof', type(v.v).__module__ + '.' + type(v.v).__name__)
            if isinstance(v, ASet):
                return ('typeof', 'set')
            self.bad(e, 'type() of an abstract value')
        if name == 'slice' and 1 <= len(args) <= 3:
            if any(isinstance(a, float) for a in args):
                return slice(*args)         # the TypeError comes when it is used as an index, as in the host
            if all(a is None or (isinstance(a, int) and not isinstance(a, bool)) for a in args):
                return slice(*args)
            raise Unrecognised(self.rule, f'slice() of non-concrete bounds {args!r}', self.mod.rel)
        if name == 'setattr' and len(args) == 3 and isinstance(args[1], str) and isinstance(args[0], AObj):
            if getattr(args[0], 'frozen', False):
                raise RaiseSig('AttributeError', (f"can't set attribute {args[1]}",), e)
            args[0].attrs[args[1]] = args[2]
            return None
        if name in ('getattr', 'hasattr') and len(args) >= 2 and isinstance(args[1], str):
            obj, attr = args[0], args[1]
            if isinstance(obj, tuple) and obj and obj[0] == 'partial' and attr in ('func', 'args', 'keywords'):
                return True if name == 'hasattr' else obj[1] if attr == 'func' else tuple(obj[2]) if attr == 'args' else ADict()
            if isinstance(obj, AObj):
                if attr in obj.attrs:
                    return True if name == 'hasattr' else obj.attrs[attr]
                home = self.class_home(obj.cls)
                if home is not None and f'{obj.cls}.{attr}' in home[0].funcs:
                    return True if name == 'hasattr' else ('bound', obj, attr)
                if name == 'hasattr':
                    return False
                if len(args) > 2:
                    return args[2]
                raise RaiseSig('AttributeError', (attr,), e)
            plain = obj is None or isinstance(obj, (bool, int, float, str, AList, ADict, ModuleFunc)) or \
                (isinstance(obj, tuple) and obj and obj[0] in ('closure', 'closure-def', 'partial', 'extern', 'builtin'))
            if plain and attr in ('func', 'args', 'keywords', 'return_value'):
                # host objects of these kinds have no such attribute
                if name == 'hasattr':
                    return False
                if len(args) > 2:
                    return args[2]
                raise RaiseSig('AttributeError', (attr,), e)
            if isinstance(obj, Sym) and name == 'getattr' and len(args) > 2:
                return Sym('attr', obj, attr)          # an opaque host object: whatever it has there is not a repository object
            self.bad(e, f'{name}() of an abstract value {obj!r}')
        if name == 'issubclass' and len(args) == 2:
            def cname(v):
                if isinstance(v, tuple) and len(v) == 2 and v[0] in ('class', 'typeof'):
                    return v[1]
                return None
            a = cname(args[0])
            bs = [cname(x) for x in (args[1] if isinstance(args[1], tuple) and args[1] and isinstance(args[1][0], tuple) else [args[1]])]
            if a is None or None in bs:
                self.bad(e, 'issubclass of values that are not class names')
            return self.exc_matches(a, bs)
        if name == 'repr' and len(args) == 1 and (args[0] is None or isinstance(args[0], (int, float, str, bool))):
            return repr(args[0])
        if name == 'round' and args and all(isinstance(a, (int, float)) and not isinstance(a, bool) for a in args):
            try:
                return round(*args)
            except (ValueError, OverflowError, TypeError) as exc:
                raise RaiseSig(type(exc).__name__, (str(exc),), e)
        if name == 'divmod' and len(args) == 2 and all(isinstance(a, (int, float)) and not isinstance(a, bool) for a in args):
            try:
                return tuple(divmod(*args))
            except ZeroDivisionError as exc:
                raise RaiseSig('ZeroDivisionError', (str(exc),), e)
        if name == 'super' and not args:
            cur = getattr(self, 'current_self', None)
            if cur is None:
                self.bad(e, 'super() outside an evaluated constructor')
            return ('super', cur)
        if name == 'object' and not args:
            self._obj_counter = getattr(self, '_obj_counter', 0) + 1
            return Sym('object', self._obj_counter)          # a fresh sentinel: identical only to itself
        if name == 'callable':
            return isinstance(args[0], (ModuleFunc,)) or (isinstance(args[0], tuple) and args[0] and args[0][0] in ('closure', 'partial', 'extern', 'builtin')) or \
                (isinstance(args[0], Sym) and args[0].kind == 'hostfn')
        self.bad(e, f'builtin {name}')

    def method_hook(self, base, m, args, e):
        return NotImplemented

    def slice_hook(self, base, lo, hi, e):
        return NotImplemented

    def builtin_hook(self, name, args, e):
        return NotImplemented

    def call_function(self, node, args, at, kwargs=None):
        home = getattr(node, '_module', None)
        if home is not None and home is not self.mod and getattr(self, 'repo', None) is not None and getattr(home, 'repo', None) is self.repo:
            # a function of another module of the package (reached through a re-export or a function value): evaluated in its own namespace
            return self.sub_interp(home).call_function(node, args, at, kwargs)
        if self.depth > self.max_depth:
            self.bad(at, 'call depth exceeded')
        params = [a.arg for a in node.args.args]
        defaults = node.args.defaults
        if node.args.vararg or node.args.kwarg or getattr(node.args, 'posonlyargs', None):
            self.bad(at, 'call signature outside the subset')
        if len(args) > len(params):
            if node.args.kwonlyargs:
                raise RaiseSig('TypeError', (f'{node.name}() takes {len(params)} positional arguments but {len(args)} were given',), at)
            self.bad(at, 'call signature outside the subset')
        env = {}
        for i, p in enumerate(params):
            if i < len(args):
                env[p] = args[i]
            elif kwargs and p in kwargs:
                env[p] = kwargs[p]
            else:
                di = i - (len(params) - len(defaults))
                if di < 0:
                    self.bad(at, 'missing argument')
                env[p] = self.eval(defaults[di], self._class_scope(node))
        # keyword-only parameters: from the keywords of the call, else their defaults
        for a, d in zip(node.args.kwonlyargs, node.args.kw_defaults):
            if kwargs and a.arg in kwargs:
                env[a.arg] = kwargs[a.arg]
            elif d is not None:
                env[a.arg] = self.eval(d, self._class_scope(node))
            else:
                raise RaiseSig('TypeError', (f'{node.name}() missing keyword-only argument {a.arg}',), at)
        if kwargs:
            known = set(params) | {a.arg for a in node.args.kwonlyargs}
            extra = [k for k in kwargs if k not in known]
            if extra:
                raise RaiseSig('TypeError', (f'{node.name}() got an unexpected keyword argument {extra[0]}',), at)
        if _is_generator(node):
            return AGen(self, node, env)
        # decorators: memoisation is state (modelled exactly: the cache is keyed by host equality / hash of the arguments); context-manager, static / class method and
        # wraps decorators do not change what a direct call computes; anything else is not modelled
        memo = None
        for d in getattr(node, 'decorator_list', []):
            t = norm(d.func if isinstance(d, ast.Call) else d)
            if t in ('functools.lru_cache', 'lru_cache', 'functools.cache', 'cache'):
                typed = isinstance(d, ast.Call) and any(k.arg == 'typed' and isinstance(k.value, ast.Constant) and k.value.value for k in d.keywords)
                memo = self.__dict__.setdefault('_memo', {}).setdefault(id(node), {})
                vals = [env[p] for p in params]
                if not all(v is None or isinstance(v, (bool, int, float, str, tuple, frozenset)) for v in vals):
                    raise RaiseSig('TypeError', ('unhashable argument of a memoised function',), at) if any(isinstance(v, (AList, ADict, ASet)) for v in vals) else \
                        Unrecognised(self.rule, f'memoised function {node.name} called with an abstract argument', self.mod.rel)
                key = tuple(vals) + (tuple(type(v) for v in vals) if typed else ())
                if key in memo:
                    return memo[key]
                memo = (memo, key)
            elif t in ('contextlib.contextmanager', 'contextmanager', 'staticmethod', 'classmethod', 'functools.wraps'):
                continue
            elif t in ('property',):
                continue
            else:
                raise Unrecognised(self.rule, f'function {node.name} has the decorator {t}, which is not modelled', self.mod.rel)
        self.depth += 1
        try:
            self.exec_block(node.body, env)
        except ReturnSig as r:
            if memo is not None:
                memo[0][memo[1]] = r.value
            return r.value
        finally:
            self.depth -= 1
        if memo is not None:
            memo[0][memo[1]] = None
        return None


_GEN_CACHE = {}


def _is_generator(node):
    if id(node) not in _GEN_CACHE:
        found = False
        stack = list(node.body)
        while stack:
            n = stack.pop()
            if isinstance(n, (ast.Yield, ast.YieldFrom)):
                found = True
                break
            if isinstance(n, (ast.FunctionDef, ast.Lambda, ast.ClassDef)):
                continue
            stack.extend(ast.iter_child_nodes(n))
        _GEN_CACHE[id(node)] = found
    return _GEN_CACHE[id(node)]


def reify(v, seen=None):
    """abstract heap value -> plain python structure (ADict -> dict, AList -> list); identity-shared objects are
    reified once (same python object) so that identity facts survive"""
    seen = {} if seen is None else seen
    if isinstance(v, ADict):
        if id(v) in seen:
            return seen[id(v)]
        out = {}
        seen[id(v)] = out
        for k, x in v.d.items():
            out[k] = reify(x, seen)
        return out
    if isinstance(v, AList):
        if id(v) in seen:
            return seen[id(v)]
        out = []
        seen[id(v)] = out
        for x in v.l:
            out.append(reify(x, seen))
        return out
    return v
