"""E6d scenarios: normalisation, ISO text, getters and datetime arithmetic evaluated on concrete datetimes under several local zones."""
import datetime as _dt

from .core import Unrecognised
from .absint import ADict, AList, Sym, RaiseSig, reify
from .hostdt import DatetimeMixin, HDate, HDelta, wrap
from .libsim import LibInterp
from .evalsim import EvalInterp, build


class DtLibInterp(DatetimeMixin, LibInterp):
    pass


class DtEvalInterp(DatetimeMixin, EvalInterp):
    pass


ZONES = [('UTC', 0), ('+05:45 (Kathmandu)', 345), ('-03:30', -210), ('+13:45 (Chatham DST)', 825), ('-12:00', -720), ('+01:00', 60)]


DST_ZONES = ['America/New_York', 'Australia/Lord_Howe', 'Europe/London', 'Pacific/Chatham']


def _tz(minutes):
    return _dt.timezone(_dt.timedelta(minutes=minutes))


def dst_zone(name):
    """the IANA zone from the host's zoneinfo database, or None when the database is not installed (the zone is then skipped, with a note)"""
    try:
        import zoneinfo
        return zoneinfo.ZoneInfo(name)
    except Exception:       # ZoneInfoNotFoundError, ImportError
        return None


def exists_once(d, local):
    """the naive wall time d exists exactly once in the zone (not in a gap, not in a repeated hour)"""
    a = d.replace(tzinfo=local)
    if a.replace(fold=0).utcoffset() != a.replace(fold=1).utcoffset():
        return False
    back = a.astimezone(_dt.timezone.utc).astimezone(local).replace(tzinfo=None)
    return back == d


def transition_samples(local, year=2024):
    """naive wall times around every offset change of the zone in the year: 26 h / 3 h before, 3 h / 9 h / 30 h after, plus sub-millisecond parts"""
    out = []
    t = _dt.datetime(year, 1, 1, tzinfo=_dt.timezone.utc)
    prev = t.astimezone(local).utcoffset()
    for _ in range(366 * 24 * 2):
        t += _dt.timedelta(minutes=30)
        off = t.astimezone(local).utcoffset()
        if off != prev:
            for hours in (-26, -3, 3, 9, 30):
                w = (t + _dt.timedelta(hours=hours)).astimezone(local).replace(tzinfo=None, fold=0, microsecond=(hours * 37037) % 1000000, second=(hours * 7) % 60)
                if exists_once(w, local):
                    out.append(w)
            prev = off
    return out


def sample_datetimes():
    base = [_dt.datetime(2024, 2, 29, 23, 59, 59, 999999), _dt.datetime(2023, 1, 1, 0, 0, 0, 0), _dt.datetime(1999, 12, 31, 12, 30, 15, 1000), _dt.datetime(2024, 6, 15, 8, 5, 3, 999600),
            _dt.datetime(2020, 3, 8, 2, 30, 0, 500), _dt.datetime(100, 1, 2, 3, 4, 5, 678000), _dt.datetime(8999, 12, 30, 23, 0, 0, 123456), _dt.datetime(2024, 1, 1, 0, 0, 0, 999)]
    return base


def ref_normalize(v, local):
    if isinstance(v, _dt.datetime):
        if v.tzinfo is not None:
            return v.astimezone(local).replace(tzinfo=None)
        return v
    return _dt.datetime(v.year, v.month, v.day)


def ref_iso(v, local):
    """the ISO text of the normalised instant in the local zone, truncated to milliseconds, offset as +HH:MM"""
    n = ref_normalize(v, local)
    off = n.replace(tzinfo=local).utcoffset()
    total = int(off.total_seconds() // 60)
    sign = '+' if total >= 0 else '-'
    hh, mm = divmod(abs(total), 60)
    return f'{n.year:04d}-{n.month:02d}-{n.day:02d}T{n.hour:02d}:{n.minute:02d}:{n.second:02d}.{n.microsecond // 1000:03d}{sign}{hh:02d}:{mm:02d}'


def run_datetime(repo, libfuncs, tier='quick', rule='E6d'):
    """-> (n, problems [(clause, message)]); clauses: 'normalise', 'format', 'parse', 'getter', 'arith'"""
    vmod = repo.module('value')
    rmod = repo.module('runtime')
    f_norm = vmod.funcs.get('value_normalize_datetime')
    f_str = vmod.funcs.get('value_string')
    f_parse = vmod.funcs.get('value_parse_datetime')
    f_eval = rmod.funcs.get('evaluate_expression')
    if not (f_norm and f_str and f_parse and f_eval):
        raise Unrecognised(rule, 'value_normalize_datetime / value_string / value_parse_datetime / evaluate_expression not found', vmod.rel)
    problems, n = [], 0
    getters = {'datetimeYear': 'year', 'datetimeMonth': 'month', 'datetimeDay': 'day', 'datetimeHour': 'hour', 'datetimeMinute': 'minute', 'datetimeSecond': 'second'}
    zones = [(z, _tz(m), None) for z, m in (ZONES if tier == 'thorough' else ZONES[:4])]
    for zname in (DST_ZONES if tier == 'thorough' else DST_ZONES[:2]):
        z = dst_zone(zname)
        if z is not None:
            zones.append((zname + ' (DST rules)', z, transition_samples(z)))
    run_datetime.zones = [z[0] for z in zones]
    for zname, local, near in zones:
        it = DtLibInterp(repo, vmod, rule)
        it.local_tz = local
        lit = DtLibInterp(repo, repo.module('library'), rule)
        lit.local_tz = local
        eit = DtEvalInterp(repo, rmod, rule)
        eit.local_tz = local
        eit.oracles.pop('value_compare', None)

        def call(interp, func, args):
            interp.depth = 0
            try:
                return ('value', interp.call_function(func, list(args), func))
            except RaiseSig as sig:
                return ('raise', sig.cls, sig.args_)
        values = []
        base_samples = [d for d in sample_datetimes() + (near or []) if near is None or exists_once(d, local)]
        for d in base_samples:
            values.append(('naive', d))
            values.append(('aware UTC', d.replace(tzinfo=_dt.timezone.utc)))
            if d.year > 100 and d.year < 8999:
                values.append(('aware +02:00', d.replace(tzinfo=_tz(120))))
        values += [('date', _dt.date(2024, 2, 29)), ('date', _dt.date(1999, 12, 31))]
        for kind, v in values:
            desc = f'{kind} {v.isoformat()} in the zone {zname}'
            want_n = ref_normalize(v, local)
            if near is not None and (not exists_once(want_n, local) or want_n.replace(tzinfo=local).utcoffset().total_seconds() % 60):
                continue        # the property speaks of datetimes that exist in the zone, with a whole-minute offset
            # normalisation
            n += 1
            got = call(it, f_norm, [wrap(v)])
            if got[0] == 'raise':
                problems.append(('normalise', f'value_normalize_datetime({desc}) raises {got[1]}'))
                continue
            if not isinstance(got[1], HDate):
                raise Unrecognised(rule, f'value_normalize_datetime({desc}) evaluates to {got[1]!r}', vmod.rel)
            if got[1].v != want_n or got[1].v.tzinfo is not None or not isinstance(got[1].v, _dt.datetime):
                problems.append(('normalise', f'value_normalize_datetime({desc}) gives {got[1].v!r}; the local naive datetime of that instant is {want_n!r} (aware -> local zone, date -> midnight, naive unchanged)'))
                continue
            # ISO text and back
            n += 1
            got = call(it, f_str, [wrap(v)])
            want_s = ref_iso(v, local)
            if got[0] == 'raise':
                problems.append(('format', f'value_string({desc}) raises {got[1]}'))
                continue
            if not isinstance(got[1], str):
                raise Unrecognised(rule, f'value_string({desc}) evaluates to {got[1]!r}', vmod.rel)
            text = got[1]
            if text != want_s and not (want_s[19:23] == '.000' and text == want_s[:19] + want_s[23:]):
                problems.append(('format', f'value_string({desc}) gives {text!r}; the ISO text of that instant in the local zone, truncated to milliseconds, is {want_s!r}'))
                continue
            n += 1
            got = call(it, f_parse, [text])
            want_p = want_n.replace(microsecond=(want_n.microsecond // 1000) * 1000)
            if got[0] == 'raise':
                problems.append(('parse', f'value_parse_datetime({text!r}) raises {got[1]}'))
            elif not isinstance(got[1], HDate):
                if got[1] is None:
                    problems.append(('parse', f'value_parse_datetime({text!r}), the text datetimeISOFormat gives for {desc}, is rejected (null)'))
                else:
                    raise Unrecognised(rule, f'value_parse_datetime({text!r}) evaluates to {got[1]!r}', vmod.rel)
            elif got[1].v != want_p or got[1].v.tzinfo is not None:
                problems.append(('parse', f'value_parse_datetime({text!r}) gives {got[1].v!r}; the instant is {want_p!r} (to the millisecond, local naive)'))
            # getters
            for gname, attr in getters.items():
                lf = libfuncs.get(gname)
                if lf is None:
                    raise Unrecognised(rule, f'{gname} not registered', None)
                n += 1
                got = call(lit, lf.func, [AList([wrap(v)]), ADict({})])
                if got != ('value', getattr(want_n, attr)):
                    problems.append(('getter', f'{gname}({desc}) gives {got[1] if got[0] == "value" else got[1:]!r}; the {attr} of the normalised instant is {getattr(want_n, attr)}'))
            lf = libfuncs.get('datetimeMillisecond')
            if lf is not None:
                n += 1
                got = call(lit, lf.func, [AList([wrap(v)]), ADict({})])
                ms = want_n.microsecond / 1000
                if got[0] != 'value' or not isinstance(got[1], (int, float)) or isinstance(got[1], bool) or abs(got[1] - ms) >= 1 or not (0 <= got[1] <= 999):
                    problems.append(('getter', f'datetimeMillisecond({desc}) gives {got[1] if got[0] == "value" else got[1:]!r}; the normalised instant has {ms} ms'))
        # other ISO texts: other offsets, Z, fewer fraction digits, date only, invalid
        texts = [('2024-03-05T10:20:30Z', _dt.datetime(2024, 3, 5, 10, 20, 30, tzinfo=_dt.timezone.utc)), ('2024-03-05T10:20:30.5+02:00', _dt.datetime(2024, 3, 5, 10, 20, 30, 500000, tzinfo=_tz(120))),
                 ('2024-03-05T10:20:30.123456-11:30', _dt.datetime(2024, 3, 5, 10, 20, 30, 123456, tzinfo=_tz(-690))), ('2024-03-05T23:59:59.999+13:45', _dt.datetime(2024, 3, 5, 23, 59, 59, 999000, tzinfo=_tz(825))),
                 ('2024-03-05', 'date'), ('2024-02-30', None), ('2024-02-30T10:00:00Z', None), ('2024-13-01T00:00:00Z', None), ('2024-06-15T24:30:00+00:00', None), ('abc', None), ('', None),
                 ('2024-3-5', None), ('2024-03-05T10:20:30', None), ('2024-03-05 10:20:30Z', None), ('0000-01-01', None)]
        for text, inst in texts:
            n += 1
            got = call(it, f_parse, [text])
            if inst is None:
                if got != ('value', None):
                    problems.append(('parse', f'value_parse_datetime({text!r}) ' + (f'raises {got[1]}' if got[0] == 'raise' else f'gives {got[1]!r}') + '; text that is not a valid ISO date / datetime parses to null'))
                continue
            want_p = _dt.datetime(2024, 3, 5) if inst == 'date' else inst.astimezone(local).replace(tzinfo=None)
            want_p = want_p.replace(microsecond=(want_p.microsecond // 1000) * 1000)
            if got[0] == 'raise' or not isinstance(got[1], HDate):
                if got[0] == 'value' and got[1] is not None and not isinstance(got[1], HDate):
                    raise Unrecognised(rule, f'value_parse_datetime({text!r}) evaluates to {got[1]!r}', vmod.rel)
                problems.append(('parse', f'value_parse_datetime({text!r}) in the zone {zname} ' + (f'raises {got[1]}' if got[0] == 'raise' else 'gives null') + f'; it denotes {want_p!r}'))
            elif got[1].v != want_p or got[1].v.tzinfo is not None:
                problems.append(('parse', f'value_parse_datetime({text!r}) in the zone {zname} gives {got[1].v!r}; it denotes {want_p!r} (local naive, to the millisecond)'))
        # arithmetic: (d + n) - d = n for integral n; d + n is the naive local datetime n ms later
        for d in (sample_datetimes()[:5] if near is None else sample_datetimes()[:2] + near):
            for ms in (0, 1, -1, 999, 86400000, -3600000, 1234567, 10 ** 12 if 2000 < d.year < 2100 else 5000) + ((6 * 3600000, -2 * 86400000, 7 * 86400000, -5400000) if near is not None else ()):
                try:
                    want_sum = d + _dt.timedelta(milliseconds=ms)
                except OverflowError:
                    continue
                for spelled in (ms, float(ms)):
                    n += 1
                    eit.behaviour, eit.truths, eit.cmp_operands, eit.free_compare = {}, {}, None, False
                    G = ADict({'d': wrap(d), 'n': spelled})
                    plus = build({'binary': {'op': '+', 'left': {'variable': 'd'}, 'right': {'variable': 'n'}}})
                    try:
                        got = eit.evaluate(f_eval, plus, None, G, True, 'off')
                    except Unrecognised as exc:
                        raise Unrecognised(rule, f'datetime + number: {exc.what}', exc.where)
                    if got[0] != 'value' or not isinstance(got[1], HDate):
                        problems.append(('arith', f'{d.isoformat()} + {spelled!r} in the zone {zname} evaluates to {got[1]!r}; the language defines the datetime {ms} ms later'))
                        continue
                    same_offset = near is None or d.replace(tzinfo=local).utcoffset() == want_sum.replace(tzinfo=local).utcoffset()
                    if got[1].v != want_sum and same_offset:       # across an offset change only (d + n) - d = n is stated, not which of the two readings of 'n ms later' applies
                        problems.append(('arith', f'{d.isoformat()} + {spelled!r} in the zone {zname} gives {got[1].v!r}; {ms} ms later is {want_sum!r}'))
                        continue
                    G2 = ADict({'s': got[1], 'd': wrap(d)})
                    minus = build({'binary': {'op': '-', 'left': {'variable': 's'}, 'right': {'variable': 'd'}}})
                    got2 = eit.evaluate(f_eval, minus, None, G2, True, 'off')
                    if got2[0] != 'value' or not isinstance(got2[1], (int, float)) or isinstance(got2[1], bool) or got2[1] != ms:
                        problems.append(('arith', f'({d.isoformat()} + {spelled!r}) - {d.isoformat()} in the zone {zname} gives {got2[1]!r}; adding n milliseconds and subtracting the original gives n = {ms}'))
    return n, problems
