#!/venv/bin/python
"""Hand-run confirmations of the findings in DESIGN.md section 5 (NOT part of any check).
Usage: PYTHONPATH=<repo>/src /venv/bin/python confirm.py"""
import sys, datetime
from bare_script import parse_script, parse_expression, execute_script, evaluate_expression
from bare_script.parser import BareScriptParserError

def run(src, **opts):
    logs = []
    o = {'logFn': logs.append, 'globals': {}, **opts}
    try:
        r = execute_script(parse_script(src), o)
    except Exception as e:  # noqa
        r = f'EXC {type(e).__name__}: {str(e).splitlines()[0] if str(e) else ""}'
    return r, logs, o

def show(tag, val):
    print(f'{tag:6} {val!r}')

show('F1', run("a = arrayNew(1,2,3)\narraySet(a, 1, 5)\nreturn a")[0])
show('F2', run("return dataTop(arrayNew(objectNew('a',1), objectNew('a',2)), 1)")[0])
show('F3', run("return jsonStringify('etc., x.0] y')")[0])
for e in ['1/0', '1%0', '0 ** -1', '10.5 ** 1000', '(0-8) ** 0.5', "numberParseInt('" + '9'*400 + "') + 1.5",
          'datetimeNew(9999,12,31) + 86400000', 'true + 1', '-true', 'mathAbs(true)']:
    show('F4/N1', (e[:30], run('return ' + e)[0]))
for s in ['if 1 +:\nendif', 'a = 1\nelif 1 +:', 'while 1 +:\nendwhile', 'for x in 1 +:\nendfor', 'b = 1 +']:
    try:
        parse_script('# c\n' + s); show('F5', 'accepted')
    except BareScriptParserError as e:
        show('F5', (s.splitlines()[-2 if s.startswith('a') else 0] if False else s.split('\n')[0], e.line, e.column_number, e.line_number))
show('F7', run("i = 0\nn = 0\nwhile i < 3:\n  i = i + 1\n  n = n + 1\n  if n > 10:\n    break\n  endif\n  continue\nendwhile\nreturn n")[0])
def fetch(req):
    return {'inc.bare': 'x = 1\ny = 2\nz = 3'}.get(req['url'])
r = run("include 'inc.bare'\nreturn 1", fetchFn=fetch); show('F8', (r[0], r[2]['statementCount']))
r = run("function ff(x):\n  return x\nendfunction\nd = arrayNew(objectNew('a',1),objectNew('a',2))\ndataFilter(d, 'ff(a)', objectNew('q',1))\nreturn 1"); show('F8d', (r[0], r[2]['statementCount']))
show('F10', run("return datetimeISOParse('2024-02-30')", debug=True)[:2])
show('F10', run("return dataParseCSV('a', '2024-02-30')", debug=True)[:2])
for s in ['a = 1 \\', 'function f():\n  a = 1', 'a = 1\nb = 2 + \\\n']:
    try:
        show('F11/12', (s, parse_script(s)))
    except BareScriptParserError as e:
        show('F11/12', (s, 'ERR', e.error, e.line_number))
g = {}
r = execute_script({'statements': [{'function': {'name': 'f', 'args': ['a'], 'statements': [{'return': {'expr': {'number': 7}}}]}},
                                   {'return': {'expr': {'function': {'name': 'f'}}}}]}, {'globals': g})
show('N2', r)
show('N3', run("return '' + arrayNew(1e308 * 10)")[0])
show('F6', run("include <diff.bare>\nreturn diffLines('a\\nb', 'a\\nc')", fetchFn=lambda req: open('/repo/src/bare_script/include/' + req['url'].split('/')[-1]).read(), systemPrefix='sys/')[0])
