#!/usr/bin/env python3
"""Run the repository's baseline test-suite (guard off) and compare with /root/.vp/BASELINE.json.
Usage: baseline.py [repo_root]   exit 0 iff every stable_pass test passes."""
import json, os, subprocess, sys, tempfile, xml.etree.ElementTree as ET
repo = sys.argv[1] if len(sys.argv) > 1 else '/repo'
base = json.load(open('/root/.vp/BASELINE.json'))
fd, junit = tempfile.mkstemp(suffix='.xml'); os.close(fd)
env = dict(os.environ); env.pop('BARE_SCRIPT_PY_VERIF', None)
if repo != '/repo':
    env['PYTHONPATH'] = os.path.join(repo, 'src')
subprocess.run(['/venv/bin/python', '-m', 'pytest', '-q', '-p', 'no:cacheprovider', '--timeout=900',
                '--continue-on-collection-errors', f'--junitxml={junit}'], cwd=repo, env=env,
               stdout=subprocess.DEVNULL, stderr=subprocess.DEVNULL)
passed = set()
for tc in ET.parse(junit).getroot().iter('testcase'):
    if not any(ch.tag in ('failure', 'error', 'skipped') for ch in tc):
        passed.add(f"{tc.get('classname')}::{tc.get('name')}")
os.unlink(junit)
missing = [t for t in base['stable_pass'] if t not in passed]
print(f'baseline: {len(base["stable_pass"]) - len(missing)}/{len(base["stable_pass"])} stable tests pass; {len(passed)} passed in total')
for t in missing:
    print('  MISSING', t)
sys.exit(1 if missing else 0)
