#!/usr/bin/env python3
"""ingest.py <agent_out_dir> <PID> <break|benign> <seed_id> <round> [origin text]
Copies patch.diff + demo.py/equiv.py of one sub-agent change into /verif/seeded/<seed_id>/, confirms it independently with
tools/verify_seed.py / tools/verify_benign.py (scratch clone of /repo, baseline tests, demonstration both ways, all 20 checks)
and writes meta.json.  The seed is kept only when the confirmation holds; otherwise the directory is removed again.
Prints one line: <seed_id> KEPT|DROPPED <reason> detected_by=..."""
import json, os, shutil, subprocess, sys

src, pid, kind, sid, rnd = sys.argv[1:6]
origin = sys.argv[6] if len(sys.argv) > 6 else ''
dst = os.path.join('/verif/seeded', sid)
os.makedirs(dst, exist_ok=True)
prog = 'demo.py' if kind == 'break' else 'equiv.py'
for f in ('patch.diff', prog):
    shutil.copy(os.path.join(src, f), os.path.join(dst, f))
try:
    am = json.load(open(os.path.join(src, 'meta.json')))
except Exception:  # pylint: disable=broad-except
    am = {}
tool = '/verif/tools/verify_seed.py' if kind == 'break' else '/verif/tools/verify_benign.py'
p = subprocess.run(['python3', tool, dst], capture_output=True, text=True)
try:
    v = json.loads(p.stdout)
except Exception:  # pylint: disable=broad-except
    v = {'error': (p.stdout + p.stderr)[-500:]}
if kind == 'break':
    ok = v.get('demo_clean') == 0 and v.get('applies') and v.get('baseline_ok') and v.get('demo_patched') not in (0, None)
    conf = {'how': 'tools/verify_seed.py on a scratch clone of /repo: demo exit 0 clean, patch applies, 410 baseline tests pass with the patch, demo exit != 0 with the patch',
            'demo_clean': v.get('demo_clean'), 'demo_patched': v.get('demo_patched'), 'baseline_ok': v.get('baseline_ok')}
    det = v.get('detected_by', {})
else:
    ok = v.get('equiv_clean') == 0 and v.get('applies') and v.get('baseline_ok') and v.get('equiv_patched') == 0
    conf = {'how': 'tools/verify_benign.py on a scratch clone of /repo: equiv exit 0 clean, patch applies, 410 baseline tests pass with the patch, equiv exit 0 with the patch',
            'equiv_clean': v.get('equiv_clean'), 'equiv_patched': v.get('equiv_patched'), 'baseline_ok': v.get('baseline_ok')}
    det = v.get('checks_nonzero', {})
if not ok:
    shutil.rmtree(dst)
    print(sid, 'DROPPED', json.dumps(v)[:600])
    sys.exit(1)
meta = {'property': pid, 'kind': kind, 'round': int(rnd), 'origin': origin, 'summary': am.get('summary', ''), 'files': am.get('files', []),
        'confirmed_by_me': conf}
if kind == 'break':
    meta['needs'] = am.get('needs', '')
json.dump(meta, open(os.path.join(dst, 'meta.json'), 'w'), indent=1)
json.dump(v, open(os.path.join('/tmp/wt6', sid + '.verdict.json'), 'w'), indent=1)
print(sid, 'KEPT', 'own=%s' % ({k: d['exit'] for k, d in det.items()}.get(pid)), 'all=%s' % {k: d['exit'] for k, d in det.items()})
