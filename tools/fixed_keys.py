#!/usr/bin/env python3
"""Re-introduce each repaired defect (the fixed-* variants of selftest_variants.py) on a scratch copy and print the finding keys the
property's check reports - used to fill the "fixed" section of known_findings.json."""
import json, os, shutil, subprocess, sys, tempfile
sys.path.insert(0, '/verif')
from selftest_variants import VARIANTS
out = {}
for vid, prop, kind, desc, edits, expect in VARIANTS:
    if not vid.startswith('fixed-'):
        continue
    s = tempfile.mkdtemp(prefix='vfix.', dir='/dev/shm')
    try:
        shutil.copytree('/repo/src', os.path.join(s, 'repo', 'src'), ignore=shutil.ignore_patterns('__pycache__'))
        if os.path.isdir('/repo/perf'):
            shutil.copytree('/repo/perf', os.path.join(s, 'repo', 'perf'))
        okv = True
        for rel, old, new in edits:
            p = os.path.join(s, 'repo', 'src', 'bare_script', rel)
            t = open(p).read()
            if t.count(old) != 1:
                okv = False
            open(p, 'w').write(t.replace(old, new))
        if not okv:
            continue
        subprocess.run(['/verif/check', prop], env=dict(os.environ, VERIF_REPO=os.path.join(s, 'repo'), VERIF_EVIDENCE_DIR=os.path.join(s, 'ev')), capture_output=True)
        ev = json.load(open(os.path.join(s, 'ev', f'{prop}.json')))
        out[vid] = {'property': prop, 'desc': desc, 'keys': [(v['key'], v['what'][:200]) for v in ev['coverage']['new_violations']][:4]}
    finally:
        shutil.rmtree(s, ignore_errors=True)
print(json.dumps(out, indent=1))
