#!/usr/bin/env python3
"""verify_seed.py <seed_dir> [<seed_id>]
Independent confirmation of a seeded change (patch.diff + demo.py + meta.json):
  1. demo passes (exit 0) on a scratch copy of /repo;  2. patch applies;  3. the 410 baseline tests still pass;
  4. demo fails (exit != 0) with the patch;  5. which of the 20 checks report it (VERIF_REPO = scratch copy).
Writes the verdict to stdout as JSON.  Scratch copies live under /dev/shm and are removed."""
import json, os, shutil, subprocess, sys, tempfile

seed = os.path.abspath(sys.argv[1])
out = {'seed': seed}
S = tempfile.mkdtemp(prefix='vseed.', dir='/dev/shm')
try:
    repo = os.path.join(S, 'repo')
    subprocess.run(['git', 'clone', '-q', '--no-hardlinks', '/repo', repo], check=True)
    env = dict(os.environ, PYTHONPATH=os.path.join(repo, 'src'), PYTHONDONTWRITEBYTECODE='1')
    def demo():
        p = subprocess.run(['/venv/bin/python', os.path.join(seed, 'demo.py')], cwd=repo, env=env, capture_output=True, text=True, timeout=600)
        return p.returncode, (p.stdout + p.stderr)[-400:]
    out['demo_clean'] = demo()[0]
    ap = subprocess.run(['git', 'apply', '--whitespace=nowarn', os.path.join(seed, 'patch.diff')], cwd=repo, capture_output=True, text=True)
    out['applies'] = ap.returncode == 0
    if not out['applies']:
        out['apply_err'] = ap.stderr[-300:]
    else:
        b = subprocess.run(['python3', '/verif/tools/baseline.py', repo], capture_output=True, text=True)
        out['baseline_ok'] = b.returncode == 0
        out['baseline'] = b.stdout.strip().splitlines()[0] if b.stdout else ''
        rc, tail = demo()
        out['demo_patched'] = rc
        out['demo_tail'] = tail
        det = {}
        ev = os.path.join(S, 'ev')
        for i in range(1, 21):
            pid = f'C{i:02d}'
            if os.environ.get('SEED_ONLY') and pid not in os.environ['SEED_ONLY'].split(','):
                continue
            p = subprocess.run(['/verif/check', pid], env=dict(os.environ, VERIF_REPO=repo, VERIF_EVIDENCE_DIR=ev), capture_output=True, text=True)
            if p.returncode != 0:
                rules = sorted({l.split()[1] for l in p.stdout.splitlines() if l.startswith('  rule ')})
                det[pid] = {'exit': p.returncode, 'rules': rules, 'first': next((l.strip()[:300] for l in p.stdout.splitlines() if l.startswith('  rule ')), '')
                            or next((l[:300] for l in p.stdout.splitlines() if l.startswith('ANALYSIS-ERROR')), '')}
        out['detected_by'] = det
finally:
    shutil.rmtree(S, ignore_errors=True)
print(json.dumps(out, indent=1))
