#!/usr/bin/env python3
"""Generate /verif/MANIFEST.json from the per-property table below (kept here so the manifest stays consistent)."""
import json
import os

HERE = os.path.dirname(os.path.dirname(os.path.abspath(__file__)))

TRUST = ('Trusted base: CPython semantics of the primitives named in the rule tables (ast/operator/host library behaviour), '
         'schema_markdown implementing the documented struct/union/enum/optional semantics, and the recognisers of the '
         'checker itself (tested both ways by ./selftest). The check reads /repo source text only; nothing from the '
         'repository is imported or run under CPython (where noted, repository functions are evaluated by the checker\'s own abstract interpreter over abstract inputs).')

# id -> (technique, level text, design ref, extra level note)
CHECKS = {
    'C01': ('abstract interpretation of the parser handlers (E6) over all nesting shapes to depth 3/4 + lock-step bisimulation of the emitted '
            'jump code with the structured big-step reading; for-loop data rules on silent statements; error shapes; stack-discipline rule for the induction step',
            'Decides that the lowering templates of if/elif/else, while, for, break, continue (all nestings to depth 3 quick / 4 thorough, global scope, inside '
            'functions, several functions) have the control flow of the structured reading, and that ill-nested programs are rejected; extends to all depths by '
            'the stack-discipline argument. Does not execute programs or examine values; runtime jump semantics are C08.',
            'DESIGN.md 4/C01', 'Known finding: continue inside while bypasses the loop test (known_findings.json).'),
    'C03': ('symbolic evaluation of the operator dispatch ladder over 13x13 host type atoms per operator (table read-back); E6e: abstract interpretation of evaluate_expression over expression models with opaque host functions: lookup order, laziness of && || if(), argument order, every operand evaluated exactly once, operator coverage of the schema enum, relational operators as sign tests of value_compare; alias table',
            'Decides the operator/type action table ("unsupported operand types yield null", bool is not a number, string/datetime overloads), short circuit by value_boolean returning the operand, if() laziness, operands and arguments evaluated exactly once left to right (also when the left value already decides), every enum operator implemented, aliases resolve to the same library functions. Numerical results are the host\'s. The abstract interpreter (sa/absint.py) evaluates the AST of the repository functions itself over abstract inputs; nothing is imported or run under CPython.',
            'DESIGN.md 12/C03 (as built) and 4/C03 (plan)', ''),
    'C04': ('E6s/E6e: abstract execution of the assignment statement (3 scope cases), of the function statement and of the value it binds applied to argument lists of every length (binding table, fresh frames, own statement list, caller options), abstract evaluation of variable / function lookup (151 scenarios); who-writes-globals enumeration, library-injection membership rule, callback call-site rules, shared C10.A (parameter split)',
            'Decides assignment scope, fresh locals per call, lookup order (keywords, locals by membership, globals, built-ins under the flag), non-overwriting library injection, unconditional function binding/redefinition, the parameter binding table incl. "..." / missing / surplus arguments and explicit lastArgArray False, callbacks keep options and get fresh argument lists. The abstract interpreter (sa/absint.py) evaluates the AST of the repository functions itself over abstract inputs; nothing is imported or run under CPython.',
            'DESIGN.md 12/C04 (as built) and 4/C04 (plan)', ''),
    'C05': ('exception-escape (effect) analysis over the resolved call graph from execute_script/evaluate_expression with a frozen CPython raising-primitive table; E6e abstract evaluation of the function-call wrapper (host function returns / raises ValueArgsError, TypeError, BareScriptRuntimeError, BareScriptParserError x debug/logFn configurations); provenance-based classification of dynamic calls; string-key rule for library-made objects',
            'Decides "no path from a raising primitive to the API boundary without a handler" outside the library-call wrapper, and the wrapper\'s outcomes (failure value / null / propagate runtime error, logging exactly under debug+logFn). Causes of failures inside library functions are contained wholesale by the wrapper and not enumerated; values are assumed acyclic. The abstract interpreter (sa/absint.py) evaluates the AST of the repository functions itself over abstract inputs; nothing is imported or run under CPython.',
            'DESIGN.md 12/C05 (as built) and 4/C05 (plan)', ''),
    'C07': ('E6 template extraction + schema-text validation (E5) of every emitted abstract model, per-scope label/jump multiset rules, monotone-counter rule, '
            'reader/writer key-path agreement',
            'Decides schema validity and label uniqueness/target/coverage of everything the parser emits for all shapes to the depth bound (and all programs via the '
            'monotone counter + stack discipline), and that runtime/lint read only schema paths.',
            'DESIGN.md 4/C07', ''),
    'C08': ('E6s: abstract interpretation of _execute_script_helper over every statement list of length <= 4 (5 thorough) over {label A/B, jump A/B, jumpif, expr, assignment, return, return expr} in global and function scope with opaque expressions and 4 truth schedules, compared with the documented semantics (31028 runs quick); CFG path rule for the program counter, cache-origin rule, schema-vs-dispatch exhaustiveness, model immutability effect analysis, E6e argument-list scenarios; shared C09.D/W, C04.R/F',
            'Decides the statement-loop semantics on all small jump-level models (order, first label of that name in the current list incl. index 0 and backward, unknown label error, jump iff no expr or value_boolean, return, assignments, statement count), cache locality, model immutability in runtime.py/model.py and the argument-list protocol. Longer lists than the bound rely on the program-counter CFG rule. The abstract interpreter (sa/absint.py) evaluates the AST of the repository functions itself over abstract inputs; nothing is imported or run under CPython.',
            'DESIGN.md 12/C08 (as built) and 4/C08 (plan)', ''),
    'C09': ('symbolic per-iteration evaluation of the loop prefix (counter = start + 1 from a read made in this iteration; cached counts reported), finite-abstraction evaluation of the (possibly nested) abort condition over 6 cases, package-wide who-writes/who-reads of the counter and limit keys, options-object identity flow with copy/write-back (finally) recognition incl. helper-returned copies, no-swallow rule over the call-graph closure of statement-executing callees',
            'Decides exactness (increment by 1 and test before every dispatch; abort iff limit>0 and count>limit), completeness (every statement-executing call shares the counter or writes it back in a finally; no handler absorbs the limit error) and monotonicity (nothing else reads the limit).',
            'DESIGN.md 12/C09 (as built) and 4/C09 (plan)', ''),
    'C11': ('symbolic evaluation of value_type/value_compare ladders over 13 host type atoms (169 pairs), three-way form evaluation, container-branch recognisers; E6e relational scenarios (6 operators x 3 signs x 3 type pairs); E6l abstract execution of mathMax/mathMin (argument lists <= 3 over null < a < b < c) and of the dataSort comparator (512 cases) with host ordering/equality of opaque values reported; sort call-site rules',
            "Decides the type partition, null-first, antisymmetry-by-construction of every scalar branch, element-wise container comparison, sign tests of the six relational operators and that sort/indexOf/min/max/dataSort order and match by value_compare only. Transitivity inside one host type is the host's. The abstract interpreter (sa/absint.py) evaluates the AST of the repository functions itself over abstract inputs; nothing is imported or run under CPython.",
            'DESIGN.md 12/C11 (as built) and 4/C11 (plan)', ''),
    'C02': ('constant-folded precedence table vs the ladder (196 entries), operator-set agreement (tokeniser regex language / table / schema / evaluator coverage), priority order of the operator alternation; E6x: abstract interpretation of parse_expression and its helpers over abstract token streams (regex matches are oracles decided from the pattern) compared with a precedence-climbing reference: all operator chains of length <= 4 (41370), operand forms in operator contexts, stacked prefix operators, 26 ill-formed sequences, error-text alignment',
            'Decides the tree the expression parser builds for every operator chain of up to 4 operators (5 one-per-rung in the thorough tier), every operand form in operator context, nested prefix operators, rejection of ill-formed token sequences with BareScriptParserError and the alignment of error texts/columns - independent of how the code is spelled. Lexical details inside a token (digits, escapes) are C13/C06. The abstract interpreter (sa/absint.py) evaluates the AST of the repository functions itself over abstract inputs; nothing is imported or run under CPython.',
            'DESIGN.md 12/C02 (as built) and 4/C02 (plan)', ''),
    'C06': ('E6 scenario analysis of parse_script (failing sub-expression oracle, continuation lines, error shapes) with linear normal forms of the reported column validated '
            'against regex group positions; exception-escape sweep; automata inclusion of the number regex in float(); algebraic caret identity per elision branch',
            'Decides: every sub-expression syntax error is re-raised with full line, line number start+index and a column equal to group offset + inner column; errors of ill-formed shapes '
            'name a line of the input; open blocks / continuations at end of input are rejected; each statement form emits exactly one statement; only BareScriptParserError escapes; caret under elision.',
            'DESIGN.md 4/C06', ''),
    'C10': ('regex-structure rules (blank tolerance; automata closure in the thorough tier), splitter / continuation / join recognisers, E6 comment-insertion scenarios, '
            'effect analysis for module-level state',
            'Decides blank tolerance of every statement and token regex, one CRLF/LF splitter for both input forms, continuation detection and join, comment/blank-line invariance of the '
            'emitted model for all shapes to depth 2, and statelessness of the parser. Full metamorphic equality over all programs x rewrites is execution-based.',
            'DESIGN.md 4/C10', ''),
    'C13': ('type-atom evaluation of value_string, shape rule + automata for the clean-up regex, automata inclusion printed-number language in literal regex, abstract execution of value_parse_number / value_parse_integer (float()/int() oracles: finite, NaN, infinity, ValueError), E6x conversion of every literal flavour',
            "Decides what the repository adds around CPython's repr/float round trip: dispatch order, the clean-up can only delete an all-zero fraction at the end, printed numbers are accepted literals converted by float(), parsers map non-finite / non-numeric text to null. Round-tripping over all doubles is the trusted base. The abstract interpreter (sa/absint.py) evaluates the AST of the repository functions itself over abstract inputs; nothing is imported or run under CPython.",
            'DESIGN.md 12/C13 (as built) and 4/C13 (plan)', ''),
    'C14': ('encoder-configuration rules, automata equivalence of the string-token alternative with the JSON string-token language, follow-set rule for the number clean-up, '
            'key-serialisation sites',
            'Decides that post-processing of encoder output cannot alter string tokens and strips the fraction of integral numbers in every structural position, that every encoder '
            'sorts keys / rejects NaN, and that jsonParse does not pre-process text. jsonParse(jsonStringify(v)) == v then rests on the host json contract.',
            'DESIGN.md 4/C14', ''),
    'C15': ('E6l: abstract execution of the 10 index-taking array/string functions (through value_args_validate) on sequences of length 0-5 with indices -2..5 as int and float, non-integral, null, wrong-typed, boolean, missing, compared with the reference list/str model (2926 runs); per-function sibling rules over the registry: failure-value agreement, CFG validate-before-mutate, aliasing contract, type-atom evaluation of the argument type test, thin-wrapper table, default idiom; shared C11.U',
            'Decides results, failure values, effects and argument preservation of the index-taking functions on all small cases, and the per-function disciplines (documented failure values, validate before mutate, fresh vs same container, type strictness, host-operation wrappers). Reference-model equality over long call histories is not decided. The abstract interpreter (sa/absint.py) evaluates the AST of the repository functions itself over abstract inputs; nothing is imported or run under CPython.',
            'DESIGN.md 12/C15 (as built) and 4/C15 (plan)', ''),
    'C16': ('shape recogniser for carry blocks bound to argument-model positions (unit table), day-loop step rules, getter sibling table, normalisation branches, formatter/parser facts with '
            'automata inclusion over all digits, effect analysis of the ISO parser',
            'Decides unit tables, carry order, month-length recomputation, getter/attribute agreement, formatter <-> parser symmetry (local zone, millisecond truncation, language inclusion) and '
            'totality of the ISO parser. Everything quantified over time zones / calendar correctness for all component values is NOT decided.',
            'DESIGN.md 4/C16', ''),
    'C17': ('E6s: abstract execution of the include statement with oracles for fetchFn / urlFn / logFn / parse_script / lint_script / url_file_relative over 20 scenarios (resolution table, nesting to 3 levels, fetch and syntax failures at depth, lint under debug, statement limit inside an include) + include inside a function; who-writes urlFn; E6 parser-side scenarios; three-valued case table of url_file_relative; CLI wiring',
            'Decides resolution against the including file at every level, isolation of the re-based urlFn, fetch/parse/lint/execute order once per include, global scope, statement accounting, failure reporting naming the failing file only, include merging/system flag in the parser, url_file_relative cases (recognised forms), CLI loader. The abstract interpreter (sa/absint.py) evaluates the AST of the repository functions itself over abstract inputs; nothing is imported or run under CPython.',
            'DESIGN.md 12/C17 (as built) and 4/C17 (plan)', ''),
    'C18': ('effect analysis (model immutability), schema path typing with guard recognition for optional members + truthiness rule, abstract execution of the use collector / statement walker / pointless test over all expression models of depth <= 2, label-table scoping rules, warning-loop order rule; shared C08.E/L (what a jump does at run time)',
            'Decides purity, never-raises on schema-valid models (optional members guarded), exact use collection and pointless test, per-scope label tables matching the runtime search scope, deterministic warning order. Behaviour preservation of acting on a warning needs an execution oracle. The abstract interpreter (sa/absint.py) evaluates the AST of the repository functions itself over abstract inputs; nothing is imported or run under CPython.',
            'DESIGN.md 12/C18 (as built) and 4/C18 (plan)', ''),
    'C19': ('E6l: abstract execution of top_data, aggregate_data and join_data over 5 tables each (duplicate / null / missing / mixed-type / look-alike keys; counts as int and float; six reducers; colliding field names a, a2, a3) compared with the relational meaning (334 runs); filter / calculated-field loops, sort site, CSV inference tests; shared C12/C16/C09 clauses',
            'Decides dataTop, dataAggregate and dataJoin on all small tables of the scenario set (partition by serialised key, first-appearance order, non-null reducers, collision renaming that never overwrites a left field), filter by value_boolean in order, calculated field on every row, CSV inference by is-None tests. CSV text round trip rests on the host csv module. The abstract interpreter (sa/absint.py) evaluates the AST of the repository functions itself over abstract inputs; nothing is imported or run under CPython.',
            'DESIGN.md 12/C19 (as built) and 4/C19 (plan)', ''),
    'C20': ('independent BareScript front-end (E9) over the shipped .bare sources: well-formedness, lint-equivalent facts, call resolution / arity / definitely-null arguments against the library argument models, evidence-based side assignment (left / right / shared offsets) with access and block rules inside diffLines; shared C15.H/C11.F/C08.L/C08.E clauses',
            "Decides that every shipped script parses and is lint-clean (re-derived), and for diffLines: every block is pushed onto the returned array, element accesses of one side use only that side's cursors (or shared offsets), Remove/Add blocks come from the right side, pushes are guarded against empty ranges (three-valued). Reconstruction for all input pairs needs execution and is not decided.",
            'DESIGN.md 12/C20 (as built) and 4/C20 (plan)', ''),
    'C12': ('forward may-taint dataflow (per-function CFG with None-refinement, inter-procedural by parameter binding) from maybe-float numbers to integer-only operand positions; type-test lint; E6l abstract execution of the 10 index-taking array/string functions with every number spelled as int and as float (2926 runs); E6x number-literal conversion',
            'Decides that every index/count/size/radix/digit-count position a float-spelled integral number can reach is coerced, that the index-taking functions give identical results for both spellings on all small cases, that integrality is tested by value and literals are always floats. Equality of results for all inputs of all functions is value-dependent and not decided. The abstract interpreter (sa/absint.py) evaluates the AST of the repository functions itself over abstract inputs; nothing is imported or run under CPython.',
            'DESIGN.md 12/C12 (as built) and 4/C12 (plan)', ''),
}

NOT_YET = {}


def main():
    props = [json.loads(l) for l in open(os.path.join(HERE, 'properties.jsonl'))]
    checks = []
    not_applicable = []
    for p in props:
        pid = p['id']
        if pid in CHECKS:
            tech, text, ref, note = CHECKS[pid]
            checks.append({
                'property_id': pid,
                'quick_cmd': f'./check {pid} --tier quick',
                'thorough_cmd': f'./check {pid} --tier thorough',
                'evidence_file': f'evidence/{pid}.json',
                'replay_cmd_template': f'./check {pid} --replay {{path}}',
                'engine': 'sa',
                'level_claimed': {'category': 'other', 'text': text, 'design_ref': ref},
                'level_note': (note + ' ' if note else '') + TRUST,
                'technique': 'static analysis: ' + tech,
            })
        else:
            not_applicable.append({'property_id': pid, 'reason': NOT_YET.get(pid, 'static check for this property is not built yet (work in progress); nothing is claimed')})
    manifest = {
        'version': 1,
        'setup_cmd': 'python3 -c "import ast, json, re, hashlib; import sys; sys.exit(0 if sys.version_info >= (3, 9) else 1)"',
        'hooks': {
            'guard': 'BARE_SCRIPT_PY_VERIF',
            'enable': 'none - the checks are static and read the working tree of /repo; no hook or instrumentation commits exist',
            'baseline_off_cmd': 'python3 /verif/tools/baseline.py /repo',
            'source_commits': [],
            'add_only': True,
        },
        'engines': [{
            'name': 'sa',
            'path': 'sa/',
            'serves_properties': [c['property_id'] for c in checks],
            'kind_free_text': 'repository-specific static analysers over Python ast (loader with literal tables, statement CFG, '
                              'dataflow, call-graph binding, regex-AST and schema-text readers, an abstract interpreter for the Python subset the '
                              'repository uses - applied to the parser, the expression parser, the statement loop, the evaluator and selected library / data '
                              'functions over abstract inputs with oracles for regex matches, host callbacks and opaque values - and an independent '
                              'BareScript front-end); stdlib only',
        }],
        'checks': checks,
        'not_applicable': not_applicable,
        'notes': 'All checks: ./check <ID> [--tier quick|thorough] [--replay file]; exit 0 pass (KNOWN-FINDING lines for listed findings), '
                 'exit 1 VIOLATION, exit 2 ANALYSIS-ERROR (construct not recognised: neither pass nor alarm). Known findings and fixed '
                 'defects: known_findings.json. Checker self-test (not a registered command): ./selftest.',
    }
    with open(os.path.join(HERE, 'MANIFEST.json'), 'w') as fh:
        json.dump(manifest, fh, indent=1)
        fh.write('\n')
    print(f'{len(checks)} checks, {len(not_applicable)} not_applicable')


if __name__ == '__main__':
    main()
