#!/usr/bin/env python3
"""Generate /verif/MANIFEST.json from the per-property table below (kept here so the manifest stays consistent)."""
import json
import os

HERE = os.path.dirname(os.path.dirname(os.path.abspath(__file__)))

TRUST = ('Trusted base: CPython semantics of the primitives named in the rule tables (ast/operator/host library behaviour), '
         'schema_markdown implementing the documented struct/union/enum/optional semantics, and the recognisers of the '
         'checker itself (tested both ways by ./selftest). The check reads /repo source text only; nothing from the '
         'repository is imported or run under CPython (where noted, repository functions are evaluated by the checker\'s own abstract interpreter over abstract inputs).')

# id -> (technique, level text, design ref, extra level note)
CHECKS = {
    'C01': ('abstract interpretation of the parser handlers (E6) over all nesting shapes to depth 3/4 + lock-step bisimulation of the emitted '
            'jump code with the structured big-step reading; for-loop data rules on silent statements; error shapes; stack-discipline rule for the induction step',
            'Decides that the lowering templates of if/elif/else, while, for, break, continue (all nestings to depth 3 quick / 4 thorough, global scope, inside '
            'functions, several functions) have the control flow of the structured reading, and that ill-nested programs are rejected; extends to all depths by '
            'the stack-discipline argument. Does not execute programs or examine values; runtime jump semantics are C08.',
            'DESIGN.md 4/C01', 'Known finding: continue inside while bypasses the loop test (known_findings.json).'),
    'C03': ('symbolic evaluation of the operator dispatch ladder over 13x13 host type atoms per operator (table read-back); E6e: abstract interpretation of evaluate_expression over expression models with opaque host functions: lookup order, laziness of && || if(), argument order, every operand evaluated exactly once, operator coverage of the schema enum, relational operators as sign tests of value_compare; alias table',
            'Decides the operator/type action table ("unsupported operand types yield null", bool is not a number, string/datetime overloads), short circuit by value_boolean returning the operand, if() laziness, operands and arguments evaluated exactly once left to right (also when the left value already decides), every enum operator implemented, aliases resolve to the same library functions. Numerical results are the host\'s. The abstract interpreter (sa/absint.py) evaluates the AST of the repository functions itself over abstract inputs; nothing is imported or run under CPython.',
            'DESIGN.md 13 + 12/C03 (as built) and 4/C03 (plan)', ''),
    'C04': ('E6s/E6e: abstract execution of the assignment statement (3 scope cases), of the function statement and of the value it binds applied to argument lists of every length (binding table, fresh frames, own statement list, caller options), abstract evaluation of variable / function lookup (151 scenarios); who-writes-globals enumeration, library-injection membership rule, callback call-site rules, shared C10.A (parameter split)',
            'Decides assignment scope, fresh locals per call, lookup order (keywords, locals by membership, globals, built-ins under the flag), non-overwriting library injection, unconditional function binding/redefinition, the parameter binding table incl. "..." / missing / surplus arguments and explicit lastArgArray False, callbacks keep options and get fresh argument lists. The abstract interpreter (sa/absint.py) evaluates the AST of the repository functions itself over abstract inputs; nothing is imported or run under CPython.',
            'DESIGN.md 13 + 12/C04 (as built) and 4/C04 (plan)', ''),
    'C05': ('exception-escape (effect) analysis over the resolved call graph from execute_script/evaluate_expression with a frozen CPython raising-primitive table; E6e abstract evaluation of the function-call wrapper (host function returns / raises ValueArgsError, TypeError, BareScriptRuntimeError, BareScriptParserError x debug/logFn configurations); provenance-based classification of dynamic calls; string-key rule for library-made objects',
            'Decides "no path from a raising primitive to the API boundary without a handler" outside the library-call wrapper, and the wrapper\'s outcomes (failure value / null / propagate runtime error, logging exactly under debug+logFn). Causes of failures inside library functions are contained wholesale by the wrapper and not enumerated; values are assumed acyclic. The abstract interpreter (sa/absint.py) evaluates the AST of the repository functions itself over abstract inputs; nothing is imported or run under CPython.',
            'DESIGN.md 13 + 12/C05 (as built) and 4/C05 (plan)', ''),
    'C07': ('E6 template extraction + schema-text validation (E5) of every emitted abstract model, per-scope label/jump multiset rules, monotone-counter rule, '
            'reader/writer key-path agreement',
            'Decides schema validity and label uniqueness/target/coverage of everything the parser emits for all shapes to the depth bound (and all programs via the '
            'monotone counter + stack discipline), and that runtime/lint read only schema paths.',
            'DESIGN.md 4/C07', ''),
    'C08': ('E6s: abstract interpretation of _execute_script_helper over every statement list of length <= 4 (5 thorough) over {label A/B, jump A/B, jumpif, expr, assignment, return, return expr} in global and function scope with opaque expressions and 4 truth schedules, compared with the documented semantics (31028 runs quick); CFG path rule for the program counter, cache-origin rule, schema-vs-dispatch exhaustiveness, model immutability effect analysis, E6e argument-list scenarios; shared C09.D/W, C04.R/F',
            'Decides the statement-loop semantics on all small jump-level models (order, first label of that name in the current list incl. index 0 and backward, unknown label error, jump iff no expr or value_boolean, return, assignments, statement count), cache locality, model immutability in runtime.py/model.py and the argument-list protocol. Longer lists than the bound rely on the program-counter CFG rule. The abstract interpreter (sa/absint.py) evaluates the AST of the repository functions itself over abstract inputs; nothing is imported or run under CPython.',
            'DESIGN.md 13 + 12/C08 (as built) and 4/C08 (plan)', ''),
    'C09': ('symbolic per-iteration evaluation of the loop prefix (counter = start + 1 from a read made in this iteration; cached counts reported), finite-abstraction evaluation of the (possibly nested) abort condition over 6 cases, package-wide who-writes/who-reads of the counter and limit keys, options-object identity flow with copy/write-back (finally) recognition incl. helper-returned copies, no-swallow rule over the call-graph closure of statement-executing callees',
            'Decides exactness (increment by 1 and test before every dispatch; abort iff limit>0 and count>limit), completeness (every statement-executing call shares the counter or writes it back in a finally; no handler absorbs the limit error) and monotonicity (nothing else reads the limit).',
            'DESIGN.md 13 + 12/C09 (as built) and 4/C09 (plan)', ''),
    'C11': ('symbolic evaluation of value_type/value_compare ladders over 13 host type atoms (169 pairs), three-way form evaluation, container-branch recognisers; E6e relational scenarios (6 operators x 3 signs x 3 type pairs); E6l abstract execution of mathMax/mathMin (argument lists <= 3 over null < a < b < c) and of the dataSort comparator (512 cases) with host ordering/equality of opaque values reported; sort call-site rules',
            "Decides the type partition, null-first, antisymmetry-by-construction of every scalar branch, element-wise container comparison, sign tests of the six relational operators and that sort/indexOf/min/max/dataSort order and match by value_compare only. Transitivity inside one host type is the host's. The abstract interpreter (sa/absint.py) evaluates the AST of the repository functions itself over abstract inputs; nothing is imported or run under CPython.",
            'DESIGN.md 13 + 12/C11 (as built) and 4/C11 (plan)', ''),
    'C02': ('constant-folded precedence table vs the ladder (196 entries), operator-set agreement (tokeniser regex language / table / schema / evaluator coverage), priority order of the operator alternation; E6x: abstract interpretation of parse_expression and its helpers over abstract token streams (regex matches are oracles decided from the pattern) compared with a precedence-climbing reference: all operator chains of length <= 4 (41370), operand forms in operator contexts, stacked prefix operators, 26 ill-formed sequences, error-text alignment',
            'Decides the tree the expression parser builds for every operator chain of up to 4 operators (5 one-per-rung in the thorough tier), every operand form in operator context, nested prefix operators, rejection of ill-formed token sequences with BareScriptParserError and the alignment of error texts/columns - independent of how the code is spelled. Lexical details inside a token (digits, escapes) are C13/C06. The abstract interpreter (sa/absint.py) evaluates the AST of the repository functions itself over abstract inputs; nothing is imported or run under CPython.',
            'DESIGN.md 13 + 12/C02 (as built) and 4/C02 (plan)', ''),
    'C06': ('E6 scenario analysis of parse_script (failing sub-expression oracle, continuation lines, error shapes) with linear normal forms of the reported column validated '
            'against regex group positions; exception-escape sweep; automata inclusion of the number regex in float(); algebraic caret identity per elision branch',
            'Decides: every sub-expression syntax error is re-raised with full line, line number start+index and a column equal to group offset + inner column; errors of ill-formed shapes '
            'name a line of the input; open blocks / continuations at end of input are rejected; each statement form emits exactly one statement; only BareScriptParserError escapes; caret under elision.',
            'DESIGN.md 4/C06', ''),
    'C10': ('regex-structure rules (blank tolerance; automata closure in the thorough tier), splitter / continuation / join recognisers, E6 comment-insertion scenarios, '
            'effect analysis for module-level state',
            'Decides blank tolerance of every statement and token regex, one CRLF/LF splitter for both input forms, continuation detection and join, comment/blank-line invariance of the '
            'emitted model for all shapes to depth 2, and statelessness of the parser. Full metamorphic equality over all programs x rewrites is execution-based.',
            'DESIGN.md 4/C10', ''),
    'C13': ('type-atom evaluation of value_string, shape rule + automata for the clean-up regex, automata inclusion printed-number language in literal regex, abstract execution of value_parse_number / value_parse_integer (float()/int() oracles: finite, NaN, infinity, ValueError), E6x conversion of every literal flavour',
            "Decides what the repository adds around CPython's repr/float round trip: dispatch order, the clean-up can only delete an all-zero fraction at the end, printed numbers are accepted literals converted by float(), parsers map non-finite / non-numeric text to null. Round-tripping over all doubles is the trusted base. The abstract interpreter (sa/absint.py) evaluates the AST of the repository functions itself over abstract inputs; nothing is imported or run under CPython.",
            'DESIGN.md 13 + 12/C13 (as built) and 4/C13 (plan)', ''),
    'C14': ('encoder-configuration rules, automata equivalence of the string-token alternative with the JSON string-token language, follow-set rule for the number clean-up, '
            'key-serialisation sites',
            'Decides that post-processing of encoder output cannot alter string tokens and strips the fraction of integral numbers in every structural position, that every encoder '
            'sorts keys / rejects NaN, and that jsonParse does not pre-process text. jsonParse(jsonStringify(v)) == v then rests on the host json contract.',
            'DESIGN.md 4/C14', ''),
    'C15': ('E6l: abstract execution of the 10 index-taking array/string functions (through value_args_validate) on sequences of length 0-5 with indices -2..5 as int and float, non-integral, null, wrong-typed, boolean, missing, compared with the reference list/str model (2926 runs); per-function sibling rules over the registry: failure-value agreement, CFG validate-before-mutate, aliasing contract, type-atom evaluation of the argument type test, thin-wrapper table, default idiom; shared C11.U',
            'Decides results, failure values, effects and argument preservation of the index-taking functions on all small cases, and the per-function disciplines (documented failure values, validate before mutate, fresh vs same container, type strictness, host-operation wrappers). Reference-model equality over long call histories is not decided. The abstract interpreter (sa/absint.py) evaluates the AST of the repository functions itself over abstract inputs; nothing is imported or run under CPython.',
            'DESIGN.md 13 + 12/C15 (as built) and 4/C15 (plan)', ''),
    'C16': ('shape recogniser for carry blocks bound to argument-model positions (unit table), day-loop step rules, getter sibling table, normalisation branches, formatter/parser facts with '
            'automata inclusion over all digits, effect analysis of the ISO parser',
            'Decides unit tables, carry order, month-length recomputation, getter/attribute agreement, formatter <-> parser symmetry (local zone, millisecond truncation, language inclusion) and '
            'totality of the ISO parser. Everything quantified over time zones / calendar correctness for all component values is NOT decided.',
            'DESIGN.md 4/C16', ''),
    'C17': ('E6s: abstract execution of the include statement with oracles for fetchFn / urlFn / logFn / parse_script / lint_script / url_file_relative over 20 scenarios (resolution table, nesting to 3 levels, fetch and syntax failures at depth, lint under debug, statement limit inside an include) + include inside a function; who-writes urlFn; E6 parser-side scenarios; three-valued case table of url_file_relative; CLI wiring',
            'Decides resolution against the including file at every level, isolation of the re-based urlFn, fetch/parse/lint/execute order once per include, global scope, statement accounting, failure reporting naming the failing file only, include merging/system flag in the parser, url_file_relative cases (recognised forms), CLI loader. The abstract interpreter (sa/absint.py) evaluates the AST of the repository functions itself over abstract inputs; nothing is imported or run under CPython.',
            'DESIGN.md 13 + 12/C17 (as built) and 4/C17 (plan)', ''),
    'C18': ('effect analysis (model immutability), schema path typing with guard recognition for optional members + truthiness rule, abstract execution of the use collector / statement walker / pointless test over all expression models of depth <= 2, label-table scoping rules, warning-loop order rule; shared C08.E/L (what a jump does at run time)',
            'Decides purity, never-raises on schema-valid models (optional members guarded), exact use collection and pointless test, per-scope label tables matching the runtime search scope, deterministic warning order. Behaviour preservation of acting on a warning needs an execution oracle. The abstract interpreter (sa/absint.py) evaluates the AST of the repository functions itself over abstract inputs; nothing is imported or run under CPython.',
            'DESIGN.md 13 + 12/C18 (as built) and 4/C18 (plan)', ''),
    'C19': ('E6l: abstract execution of top_data, aggregate_data and join_data over 5 tables each (duplicate / null / missing / mixed-type / look-alike keys; counts as int and float; six reducers; colliding field names a, a2, a3) compared with the relational meaning (334 runs); filter / calculated-field loops, sort site, CSV inference tests; shared C12/C16/C09 clauses',
            'Decides dataTop, dataAggregate and dataJoin on all small tables of the scenario set (partition by serialised key, first-appearance order, non-null reducers, collision renaming that never overwrites a left field), filter by value_boolean in order, calculated field on every row, CSV inference by is-None tests. CSV text round trip rests on the host csv module. The abstract interpreter (sa/absint.py) evaluates the AST of the repository functions itself over abstract inputs; nothing is imported or run under CPython.',
            'DESIGN.md 13 + 12/C19 (as built) and 4/C19 (plan)', ''),
    'C20': ('independent BareScript front-end (E9) over the shipped .bare sources: well-formedness, lint-equivalent facts, call resolution / arity / definitely-null arguments against the library argument models, evidence-based side assignment (left / right / shared offsets) with access and block rules inside diffLines; shared C15.H/C11.F/C08.L/C08.E clauses',
            "Decides that every shipped script parses and is lint-clean (re-derived), and for diffLines: every block is pushed onto the returned array, element accesses of one side use only that side's cursors (or shared offsets), Remove/Add blocks come from the right side, pushes are guarded against empty ranges (three-valued). Reconstruction for all input pairs needs execution and is not decided.",
            'DESIGN.md 13 + 12/C20 (as built) and 4/C20 (plan)', ''),
    'C12': ('forward may-taint dataflow (per-function CFG with None-refinement, inter-procedural by parameter binding) from maybe-float numbers to integer-only operand positions; type-test lint; E6l abstract execution of the 10 index-taking array/string functions with every number spelled as int and as float (2926 runs); E6x number-literal conversion',
            'Decides that every index/count/size/radix/digit-count position a float-spelled integral number can reach is coerced, that the index-taking functions give identical results for both spellings on all small cases, that integrality is tested by value and literals are always floats. Equality of results for all inputs of all functions is value-dependent and not decided. The abstract interpreter (sa/absint.py) evaluates the AST of the repository functions itself over abstract inputs; nothing is imported or run under CPython.',
            'DESIGN.md 13 + 12/C12 (as built) and 4/C12 (plan)', ''),
}

# session 2: deciding evaluations added in front of the techniques above (DESIGN.md section 13); the older shape rules are advisory read-backs once these decide
SESSION2 = {
    'C01': 'rule C01.P (E9r, sa/progsim.py): parse_script and then execute_script with the statement loop, _script_function, evaluate_expression and the library functions called - the whole pipeline - evaluated by the abstract interpreter on 25 hand-written and 90 (quick) / 400 (thorough) grammar-generated structured programs x initial globals of every plain value type; return value, log sequence and final globals compared with a structured big-step reading of the source text (sa/barefront.py trees; the known while/continue finding identified exactly by a second reading); shared evaluation C10.L (E6p): parse_script evaluated on layout variants of programs covering every block form; absolute expectations for the loop / branch lowering (a `continue` in a while re-tests the condition, a for-loop continue advances the index) stated from the language definition',
    'C02': "rule C02.C: parse_expression's AST evaluated by the abstract interpreter on an enumerated list of concrete expression texts (precedence pairs of every operator, unary chains, groups, calls, literals of every kind incl. plus-signed and hex numbers, trailing text); the returned models are compared node by node with the trees of an independently written precedence-climbing front-end (sa/barefront.py), error positions with the first unmatched character; the regex-automaton and table rules remain for the token classes",
    'C08': 'rule C08.F (E9r): execute_script evaluated on hand-built jump-level models with user labels (a function name bound again under another body, functions sharing label names with each other and the top level, duplicate labels skipped / passed by fall-through, nested loops over one label name, a jump to a label of the caller) against the documented statement semantics (reference executor over schema models), model unchanged, second run identical; shared C09.B budget sweeps; shared rule C01.P (E9r whole parsed programs: a function statement binds when it executes, also again under another body; return; jumps stay in their list); E6s: the statement loop evaluated on curated models with duplicate labels in one scope and in different scopes under the schedule (taken, taken, not taken): the first definition in the executing scope is the target every time (lru_cache / dict memoisation modelled, unknown decorators undecided); counter shape read-back shared with C09',
    'C03': 'E6e evaluation of evaluate_expression on every ordered pair of 14 sample operands of every value type x 6 arithmetic operators and unary - / ! against the language definition (C03.T), undefined callee with effectful arguments; shared evaluations: value_string on numbers (C13), datetime arithmetic / ISO text under fixed-offset zones (C16, E6d), relational operators on 32x32 concrete values (C11.S)',
    'C04': 'shared rule C01.P (E9r whole-program evaluation: locals / globals, parameter binding, functions as values, a local hiding a global in call position, tabs in parameter lists); execute_script evaluated on an empty script with caller globals binding a library name to a host function / to null (C04.I); parse_script evaluated on layout variants of function headers (C10.L, E6p)',
    'C05': 'shared evaluations C03.T (operator table on all operand type pairs: no host exception) and C17.U (url helpers); escape analysis extended by implicit __str__/__repr__ calls when a caught exception is formatted and by with-statements (contextlib.suppress decided, swallowing context managers undecided); dataParseCSV evaluated on ragged texts with csv.reader / DictReader as exact host models (C05.K)',
    'C06': 'rule C06.Q (E6p): parse_script and parse_expression evaluated on programs with one faulty expression in every statement form (x prepended lines, start line number, extra indentation), with deleted closing keywords and final continuation backslashes: BareScriptParserError with the exact line text and 1-based number and a column inside the faulty expression that moves by exactly the prepended amount; shared C10.L literal program (line-separator-like characters, tabs and blank runs inside strings): error line / column of a fault placed after them; BareScriptParserError.__init__ evaluated on lines of 0..400 characters (incl. blanks at the ends) with the fault at every column: stored attributes and caret position in the formatted message (C06.A); blank continuation parts join to concrete text (lone backslash at end of input)',
    'C07': 'rules C07.S/T concrete clause: parse_script evaluated (E6p) on programs with numeric / string literal conditions, branches that all end in break / continue / return and functions inside open blocks, expression models built by the independent front-end, result validated against the schema text and each scope\'s label / jump sets; shared evaluations: parse_script on layout variants (C10.L, E6p) and lint_script on lowered structured code and on the shipped includes (C18.R, E6n): no label warning',
    'C09': 'rule C09.B (E9r): whole programs with script functions invoked directly, recursively, through variables / systemPartial and as callbacks of arraySort / arrayIndexOf evaluated unlimited (N statements) and under the limits 1..N+2 and 0 - exact abort point L + 1, log prefix, reproduction for L >= N, N at least the statements of the structured reading, one options object reused after a completed / failed / aborted run; E6s evaluation of the statement loop on 31028 small models under a limit (counts compared; shared C08.E) and of 21 include scenarios incl. the limit hit inside an included script; filter_data / add_calculated_field / join_data evaluated with a counting expression oracle, completing and aborted by the limit (run\'s options carry start + evaluations); handler fate analysis (conditional re-raise); the D / W / R read-backs are advisory for loop helpers once the evaluation decides',
    'C10': 'E6p (sa/parsesim.py): parse_script evaluated on concrete text - 686 (quick) layout variants of two programs covering every statement form, generated from the language definition (sa/barefront.py): blanks added / removed wherever allowed, tabs, CRLF, chunkings, blank / comment lines at every position, continuation at every blank incl. across chunks - each must give the model of the canonical layout (C10.L)',
    'C11': 'mathMin / mathMax evaluated with the repository comparison on one argument of every plain type (the result is that argument) and on ordered pairs; E6e: the six relational operators evaluated on every ordered pair of 32 concrete values (nested arrays / objects, [1] vs [true]) against the sign of the reference order; arraySort with a comparison function returning fractions',
    'C12': 'value_args_validate evaluated on an integer parameter with numbers spelled both ways; bit operators as integer-only sinks; shared evaluations that run every number as host int and as float: C15.R (E6c library reference models), C16.M (datetimeNew), C14.R (jsonStringify indent), C13.D (value_string on 5 and 5.0 ...)',
    'C13': 'parse_expression(value_string(x)) evaluated on 45 non-negative numbers incl. integral doubles around 2**53 (C13.L); value_string evaluated on 44 sample numbers (ints, integral / fractional floats, exponent forms, booleans, non-finite) - text converts back to the number, integral numbers print as integer digits, never raises - and value_parse_number on 23 concrete texts (printed forms, NaN / infinity spellings, overflowing digit strings, malformed text); host str()/float()/regex semantics on concrete values',
    'C14': 'E6l: jsonStringify (no indent, indent 2, indent 3.0) and jsonParse evaluated on 190 JSON values whose strings / keys contain . 0 , ] } " \\ / newline, control and non-BMP characters, trailing backslashes and newlines - valid JSON denoting the value, sorted keys, no fraction on integral numbers, no collisions, parse inverts (C14.R); strings with an escaped quote before ,] / ,}; one container occurring several times; json encoder / json.loads (incl. parse_int / parse_float / object_hook callbacks) as exact host models on concrete values',
    'C15': 'regexSplit(regexNew(p), text) evaluated against the host split (empty parts kept); call history: a fresh container result changed by the caller, the same call again must give a new object with the documented contents (memoisation); E6c (sa/libref.py): 42 array / object / string / regexEscape / urlEncode functions evaluated through the repository\'s own value_args_validate on ~5500 argument lists (every container / string template x indices -2..len+2 as float and as host int; wrong type in each position, missing, surplus) against reference list / dict / str models written from the $doc lines: result, identity vs freshness (shallow), post-call state of every argument, documented failure value (C15.R)',
    'C16': 'E6d (sa/hostdt.py, sa/dtsim.py): value_normalize_datetime, value_string, value_parse_datetime, the getters and datetime + / - evaluated on naive / aware / date values with sub-millisecond parts under four (six thorough) fixed-offset local zones, the datetime module as an exact host model (C16.N/I/G/E); datetimeNew evaluated on 1704 (8456 thorough) component lists, int and float spellings, against proleptic-Gregorian ordinal arithmetic (C16.M). Zones with DST rules (America/New_York, Australia/Lord_Howe; thorough also Europe/London, Pacific/Chatham) are taken from the host zoneinfo database when it is installed, with sample datetimes around every offset change of 2024 that exist exactly once; astimezone() without argument returns a fixed-offset tzinfo as CPython does',
    'C17': 'url_file_relative evaluated on 70 (including file, reference) pairs (posixpath / PurePosixPath / urljoin as exact host models), parse_script evaluated on quoted / system include lines (E6p), _fetch_include evaluated on 7 requests with importlib.resources as an opaque host object',
    'C18': 'E6n (sa/lintsim.py): lint_script evaluated on 10 jump-level models (user / duplicate / dangling labels, duplicate functions / arguments, names equal to schema member names, empty names, calls at every expression position), a structured program lowered by the evaluated parse_script and the shipped includes, three times each (again; other iteration order of unordered collections): never raises, model unchanged, deterministic, label / function / argument / unused / pointless warnings = facts of the model (C18.R)',
    'C19': 'rule C19.V primary: typed tables (numbers incl. 0 and 1e21, booleans, datetimes, strings with quoted commas / quotes and date-like invalid text, nulls) written as CSV and read back with dataParseCSV, evaluated with validate_data and the value parsers; shared evaluations: dataParseCSV on ragged texts (C05.K), data expression helpers with a counting oracle (C09.I); aggregate measures with float samples (equal non-dyadic values, large mean with small spread)',
    'C20': 'shared evaluations of the library functions diffLines relies on (C15.R incl. regexSplit with empty lines) and of label lookup per statement list (C08.F); E9x (sa/baresim.py): the shipped diffLines (text of include/diff.bare, parsed by sa/barefront.py) evaluated by a reference evaluator of the structured language with the library reference models of E6c as builtins on all pairs of line lists up to length 4 over {a, b} (quick; length 5 over three letters thorough), LF / CRLF texts: blocks reconstruct both inputs (C20.B); lint_script evaluated on the parsed includes: lint-clean (C18.R)',
}

NOT_YET = {}


def main():
    props = [json.loads(l) for l in open(os.path.join(HERE, 'properties.jsonl'))]
    checks = []
    not_applicable = []
    for p in props:
        pid = p['id']
        if pid in CHECKS:
            tech, text, ref, note = CHECKS[pid]
            checks.append({
                'property_id': pid,
                'quick_cmd': f'./check {pid} --tier quick',
                'thorough_cmd': f'./check {pid} --tier thorough',
                'evidence_file': f'evidence/{pid}.json',
                'replay_cmd_template': f'./check {pid} --replay {{path}}',
                'engine': 'sa',
                'level_claimed': {'category': 'other', 'text': text, 'design_ref': ref},
                'level_note': (note + ' ' if note else '') + TRUST,
                'technique': 'static analysis: ' + ((SESSION2[pid] + '; ') if pid in SESSION2 else '') + tech,
            })
        else:
            not_applicable.append({'property_id': pid, 'reason': NOT_YET.get(pid, 'static check for this property is not built yet (work in progress); nothing is claimed')})
    manifest = {
        'version': 1,
        'setup_cmd': 'python3 -c "import ast, json, re, hashlib; import sys; sys.exit(0 if sys.version_info >= (3, 9) else 1)"',
        'hooks': {
            'guard': 'BARE_SCRIPT_PY_VERIF',
            'enable': 'none - the checks are static and read the working tree of /repo; no hook or instrumentation commits exist',
            'baseline_off_cmd': 'python3 /verif/tools/baseline.py /repo',
            'source_commits': [],
            'add_only': True,
        },
        'engines': [{
            'name': 'sa',
            'path': 'sa/',
            'serves_properties': [c['property_id'] for c in checks],
            'kind_free_text': 'repository-specific static analysers over Python ast (loader with literal tables, statement CFG, '
                              'dataflow, call-graph binding, regex-AST and schema-text readers, an abstract interpreter for the Python subset the '
                              'repository uses - applied to the parser, the expression parser, the statement loop, the evaluator and selected library / data '
                              'functions over abstract inputs with oracles for regex matches, host callbacks and opaque values, and (session 2) on '
                              'enumerated concrete inputs with the standard library as exact host model: layout variants, lint models, library '
                              'reference models, datetimes under fixed zones, JSON values - and an independent BareScript front-end with a reference '
                              'evaluator for the shipped diff.bare); stdlib only',
        }],
        'checks': checks,
        'not_applicable': not_applicable,
        'notes': 'All checks: ./check <ID> [--tier quick|thorough] [--replay file]; exit 0 pass (KNOWN-FINDING lines for listed findings), '
                 'exit 1 VIOLATION, exit 2 ANALYSIS-ERROR (construct not recognised: neither pass nor alarm). Known findings and fixed '
                 'defects: known_findings.json. Checker self-test (not a registered command): ./selftest.',
    }
    with open(os.path.join(HERE, 'MANIFEST.json'), 'w') as fh:
        json.dump(manifest, fh, indent=1)
        fh.write('\n')
    print(f'{len(checks)} checks, {len(not_applicable)} not_applicable')


if __name__ == '__main__':
    main()
