#!/usr/bin/env python3
"""Generate /verif/MANIFEST.json from the per-property table below (kept here so the manifest stays consistent)."""
import json
import os

HERE = os.path.dirname(os.path.dirname(os.path.abspath(__file__)))

TRUST = ('Trusted base: CPython semantics of the primitives named in the rule tables (ast/operator/host library behaviour), '
         'schema_markdown implementing the documented struct/union/enum/optional semantics, and the recognisers of the '
         'checker itself (tested both ways by ./selftest). The check reads /repo source text only; nothing from the '
         'repository is imported or executed.')

# id -> (technique, level text, design ref, extra level note)
CHECKS = {
    'C12': ('forward may-taint dataflow (per-function CFG, inter-procedural by parameter binding) from maybe-float numbers '
            'to integer-only operand positions; type-test lint; literal-constructor rule',
            'Decides the structural clause of C12: every index/count/size/radix/digit-count position that a float-spelled '
            'integral number can reach is coerced (all ~105 library functions and their data.py/value.py callees, every run), '
            'the integrality constraint is tested by value, and nothing discriminates int from float by type. It does not '
            'decide equality of results for all inputs (value-dependent).',
            'DESIGN.md 4/C12', ''),
}

NOT_YET = {}


def main():
    props = [json.loads(l) for l in open(os.path.join(HERE, 'properties.jsonl'))]
    checks = []
    not_applicable = []
    for p in props:
        pid = p['id']
        if pid in CHECKS:
            tech, text, ref, note = CHECKS[pid]
            checks.append({
                'property_id': pid,
                'quick_cmd': f'./check {pid} --tier quick',
                'thorough_cmd': f'./check {pid} --tier thorough',
                'evidence_file': f'evidence/{pid}.json',
                'replay_cmd_template': f'./check {pid} --replay {{path}}',
                'engine': 'sa',
                'level_claimed': {'category': 'other', 'text': text, 'design_ref': ref},
                'level_note': (note + ' ' if note else '') + TRUST,
                'technique': 'static analysis: ' + tech,
            })
        else:
            not_applicable.append({'property_id': pid, 'reason': NOT_YET.get(pid, 'static check for this property is not built yet (work in progress); nothing is claimed')})
    manifest = {
        'version': 1,
        'setup_cmd': 'python3 -c "import ast, json, re, hashlib; import sys; sys.exit(0 if sys.version_info >= (3, 9) else 1)"',
        'hooks': {
            'guard': 'BARE_SCRIPT_PY_VERIF',
            'enable': 'none - the checks are static and read the working tree of /repo; no hook or instrumentation commits exist',
            'baseline_off_cmd': 'python3 /verif/tools/baseline.py /repo',
            'source_commits': [],
            'add_only': True,
        },
        'engines': [{
            'name': 'sa',
            'path': 'sa/',
            'serves_properties': [c['property_id'] for c in checks],
            'kind_free_text': 'repository-specific static analysers over Python ast (loader with literal tables, statement CFG, '
                              'dataflow, call-graph binding, regex-AST and schema-text readers, abstract interpretation of the '
                              'parser lowering templates, independent BareScript front-end); stdlib only',
        }],
        'checks': checks,
        'not_applicable': not_applicable,
        'notes': 'All checks: ./check <ID> [--tier quick|thorough] [--replay file]; exit 0 pass (KNOWN-FINDING lines for listed findings), '
                 'exit 1 VIOLATION, exit 2 ANALYSIS-ERROR (construct not recognised: neither pass nor alarm). Known findings and fixed '
                 'defects: known_findings.json. Checker self-test (not a registered command): ./selftest.',
    }
    with open(os.path.join(HERE, 'MANIFEST.json'), 'w') as fh:
        json.dump(manifest, fh, indent=1)
        fh.write('\n')
    print(f'{len(checks)} checks, {len(not_applicable)} not_applicable')


if __name__ == '__main__':
    main()
