#!/usr/bin/env python3
"""Generate /verif/MANIFEST.json from the per-property table below (kept here so the manifest stays consistent)."""
import json
import os

HERE = os.path.dirname(os.path.dirname(os.path.abspath(__file__)))

TRUST = ('Trusted base: CPython semantics of the primitives named in the rule tables (ast/operator/host library behaviour), '
         'schema_markdown implementing the documented struct/union/enum/optional semantics, and the recognisers of the '
         'checker itself (tested both ways by ./selftest). The check reads /repo source text only; nothing from the '
         'repository is imported or executed.')

# id -> (technique, level text, design ref, extra level note)
CHECKS = {
    'C01': ('abstract interpretation of the parser handlers (E6) over all nesting shapes to depth 3/4 + lock-step bisimulation of the emitted '
            'jump code with the structured big-step reading; for-loop data rules on silent statements; error shapes; stack-discipline rule for the induction step',
            'Decides that the lowering templates of if/elif/else, while, for, break, continue (all nestings to depth 3 quick / 4 thorough, global scope, inside '
            'functions, several functions) have the control flow of the structured reading, and that ill-nested programs are rejected; extends to all depths by '
            'the stack-discipline argument. Does not execute programs or examine values; runtime jump semantics are C08.',
            'DESIGN.md 4/C01', 'Known finding: continue inside while bypasses the loop test (known_findings.json).'),
    'C03': ('table read-back of the evaluator: symbolic evaluation of the operator dispatch ladder over 13x13 host type atoms per operator, compared with the '
            'language definition; syntactic/ordering rules for short circuit, evaluation order, if(), aliases',
            'Decides operator dispatch/guard/operand-order structure ("unsupported operand types yield null", bool is not a number, string/datetime overloads, '
            'short-circuit returns the operand value by value_boolean, each operand evaluated once left to right, if() lazy, aliases resolve to the same library '
            'functions). Numerical results are not decided.',
            'DESIGN.md 4/C03', ''),
    'C04': ('abstract case analysis of the assignment target (locals None / empty / non-empty), who-writes-globals enumeration, lookup-order rules, '
            'parameter-binding decision table read off _script_function, callback call-site rules',
            'Decides the per-site scoping and calling-convention rules (assignment scope, fresh frames, lookup order, non-overwriting library injection by membership, '
            'function statement replaces, binding table incl. "..." and missing/surplus arguments, callbacks keep options and get fresh argument lists).',
            'DESIGN.md 4/C04', ''),
    'C05': ('exception-escape (effect) analysis over the resolved call graph from execute_script/evaluate_expression with a frozen CPython raising-primitive table; '
            'handler-structure rules for the function-call wrapper',
            'Decides "no path from a raising primitive to the API boundary without a handler" for everything outside the library-call wrapper, and the wrapper\'s '
            'handler order/behaviour. Causes of failures inside library functions are contained wholesale by the wrapper and not enumerated.',
            'DESIGN.md 4/C05', ''),
    'C07': ('E6 template extraction + schema-text validation (E5) of every emitted abstract model, per-scope label/jump multiset rules, monotone-counter rule, '
            'reader/writer key-path agreement',
            'Decides schema validity and label uniqueness/target/coverage of everything the parser emits for all shapes to the depth bound (and all programs via the '
            'monotone counter + stack discipline), and that runtime/lint read only schema paths.',
            'DESIGN.md 4/C07', ''),
    'C08': ('CFG dominance/path rules on the statement loop (program counter), recognisers for label search/cache/conditional jump/return, effect analysis of '
            'model-derived objects (immutability), schema-vs-dispatch exhaustiveness',
            'Decides the statement-loop discipline (statements in order, first label of that name in the same list, unknown label error, per-invocation cache, '
            'return, value_boolean truthiness), model immutability in runtime.py/model.py and the argument-list protocol. Exhaustive execution of small models is not attempted.',
            'DESIGN.md 4/C08', ''),
    'C09': ('CFG dominance of increment and limit test, finite-abstraction evaluation of the abort condition, package-wide who-writes/who-reads of the counter and '
            'limit keys, options-object identity flow with copy/write-back (finally) recognition',
            'Decides exactness (increment by 1 and test before every dispatch; abort iff limit>0 and count>limit), completeness (every statement-executing call shares '
            'the counter or writes it back in a finally) and monotonicity (nothing else reads the limit).',
            'DESIGN.md 4/C09', ''),
    'C11': ('symbolic evaluation of value_type/value_compare ladders over 13 host type atoms (169 pairs), three-way form evaluation over the 3 orderings, '
            'container-branch recognisers, consumer call-site rules',
            'Decides the type partition, null-first, antisymmetry-by-construction of every scalar branch, element-wise container comparison, sign tests of the six '
            'relational operators and the comparison usage of sort/indexOf/min/max/dataSort. Transitivity inside one host type is the host\'s.',
            'DESIGN.md 4/C11', ''),
    'C02': ('constant-folded precedence table compared with the ladder (196 entries), operator-set agreement of four tables, ordered-alternation rule, shape recogniser of the '
            'right-spine re-ordering loop, operand-branch order by regex classification, suffix lattice for remainders and error texts',
            'Decides the table and the shape of the re-ordering algorithm (which together give precedence and left associativity for every chain by the spine invariant), '
            'operand dispatch order, unary nesting, rejection of trailing text / unmatched parentheses, identifier agreement. The 14^k enumeration of chains is execution-based and not attempted.',
            'DESIGN.md 4/C02', ''),
    'C06': ('E6 scenario analysis of parse_script (failing sub-expression oracle, continuation lines, error shapes) with linear normal forms of the reported column validated '
            'against regex group positions; exception-escape sweep; automata inclusion of the number regex in float(); algebraic caret identity per elision branch',
            'Decides: every sub-expression syntax error is re-raised with full line, line number start+index and a column equal to group offset + inner column; errors of ill-formed shapes '
            'name a line of the input; open blocks / continuations at end of input are rejected; each statement form emits exactly one statement; only BareScriptParserError escapes; caret under elision.',
            'DESIGN.md 4/C06', ''),
    'C10': ('regex-structure rules (blank tolerance; automata closure in the thorough tier), splitter / continuation / join recognisers, E6 comment-insertion scenarios, '
            'effect analysis for module-level state',
            'Decides blank tolerance of every statement and token regex, one CRLF/LF splitter for both input forms, continuation detection and join, comment/blank-line invariance of the '
            'emitted model for all shapes to depth 2, and statelessness of the parser. Full metamorphic equality over all programs x rewrites is execution-based.',
            'DESIGN.md 4/C10', ''),
    'C13': ('type-atom evaluation of value_string, shape rule + automata for the clean-up regex, automata inclusion printed-number language in literal regex, dominance rules for the parsers',
            'Decides what the repository adds around CPython\'s repr/float round trip: dispatch order, the clean-up can only delete an all-zero fraction at the end, printed numbers are '
            'literals, parsers map non-finite / non-numeric text to null. Round-tripping over all doubles is the trusted base.',
            'DESIGN.md 4/C13', ''),
    'C14': ('encoder-configuration rules, automata equivalence of the string-token alternative with the JSON string-token language, follow-set rule for the number clean-up, '
            'key-serialisation sites',
            'Decides that post-processing of encoder output cannot alter string tokens and strips the fraction of integral numbers in every structural position, that every encoder '
            'sorts keys / rejects NaN, and that jsonParse does not pre-process text. jsonParse(jsonStringify(v)) == v then rests on the host json contract.',
            'DESIGN.md 4/C14', ''),
    'C15': ('per-function sibling rules over the whole registry: failure-value agreement, CFG validate-before-mutate, bounds facts at index sinks, aliasing contract, type-atom evaluation '
            'of the argument type test, thin-wrapper table, default idiom',
            'Decides the per-function disciplines whose violation is how sequence/map/string contracts break (documented failure values, arguments unchanged on failure, bounds, fresh vs same '
            'container, type strictness, host-operation wrappers). Reference-model equality over call histories is execution-based and not decided.',
            'DESIGN.md 4/C15', ''),
    'C16': ('shape recogniser for carry blocks bound to argument-model positions (unit table), day-loop step rules, getter sibling table, normalisation branches, formatter/parser facts with '
            'automata inclusion over all digits, effect analysis of the ISO parser',
            'Decides unit tables, carry order, month-length recomputation, getter/attribute agreement, formatter <-> parser symmetry (local zone, millisecond truncation, language inclusion) and '
            'totality of the ISO parser. Everything quantified over time zones / calendar correctness for all component values is NOT decided.',
            'DESIGN.md 4/C16', ''),
    'C17': ('dataflow of the resolved-location variable through the include branch, who-writes urlFn, ordered-step and handler-scope rules, E6 include scenarios, case table of url_file_relative, CLI wiring',
            'Decides resolution against the including file (compositional step), isolation of the re-based urlFn, fetch/parse/lint/execute order once per include, global scope, failure '
            'reporting naming the resolved location, include merging/system flag in the parser, url_file_relative cases, CLI loader.',
            'DESIGN.md 4/C17', ''),
    'C18': ('effect analysis (model immutability), schema path typing with guard recognition for optional members, traversal-exhaustiveness against schema expression positions, '
            'label-table scoping rules, warning-loop order rule',
            'Decides purity, never-raises on schema-valid models (optional members guarded), completeness of use collection and pointless test, per-scope label tables matching the runtime '
            'search scope, deterministic warning order. Behaviour preservation of acting on a warning needs an execution oracle.',
            'DESIGN.md 4/C18', ''),
    'C19': ('recognisers for join name-map stores / renaming-loop condition / row construction / key functions, filter and field loops, aggregate dispatch vs schema enum and reducer table, '
            'sort/top sites, CSV inference tests; shared C12/C16/C09 clauses',
            'Decides structural necessary conditions of the relational meaning (join never overwrites a left field, same key function, filter by value_boolean in order, aggregate table, '
            'partition by serialised key, top n, CSV inference by is-None tests). Relational meaning over all tables is execution-based.',
            'DESIGN.md 4/C19', ''),
    'C20': ('independent BareScript front-end (E9) over the shipped .bare sources: well-formedness, lint-equivalent facts, call resolution / arity / definitely-null arguments against the library '
            'argument models, two-point side taint and push/guard rules inside diffLines; shared C15.H/C11.F clauses',
            'Decides that every shipped script parses and is lint-clean (re-derived), and for diffLines: every block is pushed onto the returned array, Remove/Add/Identical blocks are built from '
            'the right side(s), pushes are guarded against empty line lists, no undefined name is passed where the call would always fail. Reconstruction for all input pairs needs execution.',
            'DESIGN.md 4/C20', ''),
    'C12': ('forward may-taint dataflow (per-function CFG, inter-procedural by parameter binding) from maybe-float numbers '
            'to integer-only operand positions; type-test lint; literal-constructor rule',
            'Decides the structural clause of C12: every index/count/size/radix/digit-count position that a float-spelled '
            'integral number can reach is coerced (all ~105 library functions and their data.py/value.py callees, every run), '
            'the integrality constraint is tested by value, and nothing discriminates int from float by type. It does not '
            'decide equality of results for all inputs (value-dependent).',
            'DESIGN.md 4/C12', ''),
}

NOT_YET = {}


def main():
    props = [json.loads(l) for l in open(os.path.join(HERE, 'properties.jsonl'))]
    checks = []
    not_applicable = []
    for p in props:
        pid = p['id']
        if pid in CHECKS:
            tech, text, ref, note = CHECKS[pid]
            checks.append({
                'property_id': pid,
                'quick_cmd': f'./check {pid} --tier quick',
                'thorough_cmd': f'./check {pid} --tier thorough',
                'evidence_file': f'evidence/{pid}.json',
                'replay_cmd_template': f'./check {pid} --replay {{path}}',
                'engine': 'sa',
                'level_claimed': {'category': 'other', 'text': text, 'design_ref': ref},
                'level_note': (note + ' ' if note else '') + TRUST,
                'technique': 'static analysis: ' + tech,
            })
        else:
            not_applicable.append({'property_id': pid, 'reason': NOT_YET.get(pid, 'static check for this property is not built yet (work in progress); nothing is claimed')})
    manifest = {
        'version': 1,
        'setup_cmd': 'python3 -c "import ast, json, re, hashlib; import sys; sys.exit(0 if sys.version_info >= (3, 9) else 1)"',
        'hooks': {
            'guard': 'BARE_SCRIPT_PY_VERIF',
            'enable': 'none - the checks are static and read the working tree of /repo; no hook or instrumentation commits exist',
            'baseline_off_cmd': 'python3 /verif/tools/baseline.py /repo',
            'source_commits': [],
            'add_only': True,
        },
        'engines': [{
            'name': 'sa',
            'path': 'sa/',
            'serves_properties': [c['property_id'] for c in checks],
            'kind_free_text': 'repository-specific static analysers over Python ast (loader with literal tables, statement CFG, '
                              'dataflow, call-graph binding, regex-AST and schema-text readers, abstract interpretation of the '
                              'parser lowering templates, independent BareScript front-end); stdlib only',
        }],
        'checks': checks,
        'not_applicable': not_applicable,
        'notes': 'All checks: ./check <ID> [--tier quick|thorough] [--replay file]; exit 0 pass (KNOWN-FINDING lines for listed findings), '
                 'exit 1 VIOLATION, exit 2 ANALYSIS-ERROR (construct not recognised: neither pass nor alarm). Known findings and fixed '
                 'defects: known_findings.json. Checker self-test (not a registered command): ./selftest.',
    }
    with open(os.path.join(HERE, 'MANIFEST.json'), 'w') as fh:
        json.dump(manifest, fh, indent=1)
        fh.write('\n')
    print(f'{len(checks)} checks, {len(not_applicable)} not_applicable')


if __name__ == '__main__':
    main()
