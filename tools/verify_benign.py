#!/usr/bin/env python3
"""verify_benign.py <seed_dir>: equiv.py passes on a clean clone and with the patch; 410 baseline tests pass; run all 20 checks."""
import json, os, shutil, subprocess, sys, tempfile
seed = os.path.abspath(sys.argv[1])
out = {'seed': seed}
S = tempfile.mkdtemp(prefix='vben.', dir='/dev/shm')
try:
    repo = os.path.join(S, 'repo')
    subprocess.run(['git', 'clone', '-q', '--no-hardlinks', '/repo', repo], check=True)
    env = dict(os.environ, PYTHONPATH=os.path.join(repo, 'src'), PYTHONDONTWRITEBYTECODE='1')
    def equiv():
        try:
            p = subprocess.run(['/venv/bin/python', os.path.join(seed, 'equiv.py')], cwd=repo, env=env, capture_output=True, text=True, timeout=900)
            return p.returncode, (p.stdout + p.stderr)[-300:]
        except subprocess.TimeoutExpired:
            return 'timeout', ''
    out['equiv_clean'] = equiv()[0]
    ap = subprocess.run(['git', 'apply', '--whitespace=nowarn', os.path.join(seed, 'patch.diff')], cwd=repo, capture_output=True, text=True)
    out['applies'] = ap.returncode == 0
    if out['applies']:
        b = subprocess.run(['python3', '/verif/tools/baseline.py', repo], capture_output=True, text=True)
        out['baseline_ok'] = b.returncode == 0
        rc, tail = equiv()
        out['equiv_patched'] = rc
        out['equiv_tail'] = tail
        res = {}
        for i in range(1, 21):
            pid = f'C{i:02d}'
            p = subprocess.run(['/verif/check', pid], env=dict(os.environ, VERIF_REPO=repo, VERIF_EVIDENCE_DIR=os.path.join(S, 'ev')), capture_output=True, text=True)
            if p.returncode != 0:
                res[pid] = {'exit': p.returncode, 'lines': [l.strip()[:400] for l in p.stdout.splitlines() if l.startswith('  rule ') or l.startswith('ANALYSIS-ERROR')][:4]}
        out['checks_nonzero'] = res
    else:
        out['apply_err'] = ap.stderr[-200:]
finally:
    shutil.rmtree(S, ignore_errors=True)
print(json.dumps(out, indent=1))
