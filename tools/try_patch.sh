#!/bin/bash
# usage: try_patch.sh [-R] <patch.diff> <PID> [PID...]
# Applies the patch (or with -R reverse-applies it) to a scratch copy of /repo under /dev/shm, runs the given checks
# against the copy (VERIF_REPO), prints their verdict lines, removes the copy.
REV=""
if [ "$1" = "-R" ]; then REV="-R"; shift; fi
PATCH="$1"; shift
S=$(mktemp -d /dev/shm/vscratch.XXXXXX)
mkdir -p "$S/repo" "$S/ev"
cp -r /repo/src "$S/repo/src"
[ -d /repo/doc ] && cp -r /repo/doc "$S/repo/doc"
find "$S/repo" -name __pycache__ -prune -exec rm -rf {} +
if [ -n "$PATCH" ] && [ "$PATCH" != "-" ]; then
  (cd "$S/repo" && git apply $REV --whitespace=nowarn "$PATCH") || { echo "PATCH-FAILED"; rm -rf "$S"; exit 3; }
fi
for P in "$@"; do
  VERIF_REPO="$S/repo" VERIF_EVIDENCE_DIR="$S/ev" /verif/check "$P" ${TIER:+--tier $TIER} 2>&1 | grep -E "^\[|VIOLATION|KNOWN-FINDING|ANALYSIS-ERROR|^  rule|Traceback|Error" | sed "s#$S/##g"
done
rm -rf "$S"
